"""C18 — utility decorators: differential correspondence between the real decorators (applied with decorator syntax in
generated .py files, executed next to an undecorated twin) and the Lean interpreter of the translated wrapper bodies,
plus the independent Lean spec as oracle."""
import asyncio, contextlib, importlib.util, inspect, itertools, json, os, random, shutil, sys, tempfile, warnings

RULE = ('exhaustive: every utility decorator x {def, async def} x signature shapes {positional, keyword-only, *args/**kwargs, method, mixed} '
        'x call styles (positional / keyword / mixed / listed-keyword / colliding keywords / arity near-misses) x body outcomes {return, return an '
        'object equal to the decorator parameter, raise Exception subclass, raise BaseException subclass}; does_same_as_function x other_func '
        '{sync, async} x {identical, equal-not-identical, different, raising}; rename rule sets incl. duplicates; overrides x 41 kinds of base class (member bound to a function / None / falsy and truthy values / property / static / '
        'class method / slot / descriptor returning None or 0, in the class, a parent, a grandparent, a second base, shadowing '
        'in both directions, bound on the metaclass or its parent only, answered by a metaclass __getattr__, listed or hidden '
        'by a metaclass __dir__, instance-level __dir__ / __getattr__ / attribute, annotation only, ABC, dict subclass, '
        'dataclass defaults, implicit __hash__ = None of a class defining __eq__) x member under test {the decorated name, '
        'another name} in the call programs, and the finite grid kind x member x decorated name {ordinary, __hash__, __eq__, '
        '__init__, __call__, __str__, __len__, mro, __subclasses__, register, keys} x {def, async def} as decoration-only '
        'programs (thorough: every pair of names); the class lookup of the model (dir / hasattr / __dict__ / getattr is None / '
        'truthy / callable) is compared with the real interpreter on every such case; '
        'all ordered pairs of the 11 stackable decorators x flavours x shapes with a 4-call history; trace_class/timer_class x member kinds '
        '{method, staticmethod, classmethod, property} x access {instance, class}; metadata/coroutine-ness of pedantic, validate, in_subprocess, retry, '
        'safe_(async_)contextmanager; seeded: stacks of depth 3 and call histories of length <= 20 (counter).  '
        'require_kwargs over callables taking *args (and *args + keyword-only, + **kwargs; controls without *args) as plain function, instance method, '
        'static method (decorator below and above @staticmethod), class method (both orders), bound method / bound class method handed to the decorator '
        'call, reached through the instance and through the class, alone and under trace, x call styles with positional surplus arguments x {def, async def}.  '
        'Re-entrant calls (a call that starts while another call of the SAME decorated callable is open): recursion depth 1-4 through the module-level name '
        'and re-entrance through a callback argument, branching plans, nested calls that raise / do not bind, histories of three top-level calls, x 10 stacks '
        'with count_calls x {def, async def}; for coroutine functions also two calls in flight (call, call, await, await); judged against the undecorated recursion '
        '(specReent): same body invocations and results, every count_calls counter = number of calls made once no call is in flight, announced numbers distinct.  '
        'Staged decoration (callables that already carry attributes): a counted function called k = 0..5 times, then decorated again with count_calls '
        'directly or through each other decorator in between (count_calls(trace(counted)), count_calls(count_calls(f)), re-decoration after calls, a '
        'num_calls attribute and another __dict__ entry set by hand), every wrapper\'s num_calls entry observed after every call, plus seeded staged stacks.  '
        'Property members with gaps: every subset of {getter, setter, deleter} of a property of a class under trace_class / timer_class x {read, assign, del} '
        'alone and in two histories x body outcomes (which accessor body ran is journalled).  One decorator object applied to several callables: every one of '
        'the 17 decorators (mock(x), trace, rename_kwargs(..), overrides(Base), retry(attempts=2), validate(..), pedantic, the context managers …) applied through ONE '
        'object to 2 / 3 functions of all def / async def combinations: identity of the results, whose __name__ / __qualname__ / __doc__ / __module__ each shows after ALL '
        'applications, coroutine-ness, interleaved calls judged per function (own counters).  Generator functions and async generator functions as decorated '
        'callables (a body that journals every value sent, every exception thrown and GeneratorExit): every decorator x {generator, async generator} x 12 operation scripts '
        '(iteration to the end and beyond, send, send into a just-started generator, throw of an Exception / BaseException before the start / at a yield / after the end, '
        'close at each stage, never driven) x {driven directly, through `yield from`} x final outcome {return value, raise}, generators yielding 0..3 objects, calls that do '
        'not bind, all ordered pairs of the transparent decorators, methods of traced / timed classes, seeded stacks x operation lists; observed: is the object handed out a '
        'generator of the decorated function\'s own code, what every operation shows, the journal of the body.  Result objects that are awaitable (object with __await__, '
        'finished Future, pending Task) from plain and coroutine functions under every decorator / pair / class member.  Objects whose __repr__ / __str__ / __eq__ / __ne__ '
        'raise as positional / keyword argument, as result, as result of other_func, under every decorator x {def, async def} x call style, in pairs with the formatting / '
        'comparing decorators above and below, as method argument / property value of a traced class, as generator argument, and in 15 % of the seeded stacks.  '
        'non-trivial = at least one call reached a decorator')
EXHAUSTIVE = {'quick': True, 'thorough': True}
ASSUMPTIONS = ['__repr__ / __str__ / __eq__ / __ne__ of argument / result objects are side-effect free; they MAY raise (modelled: Traits).  Formatting goes through the '
               'never-raising display wrapper helper_methods._Shown (repair of traceFormatsArgumentsAndResults: a formatting exception escaping from a decorated call is a '
               'violation); the decorators that COMPARE what passes through them raise where the undecorated callable does not (finding comparisonsCallUserEq); all objects '
               'of a run are of one class, so a comparison runs the method of its left operand',
               'a class whose metaclass overrides __dir__ (it states its own dir() listing) is outside the specification of `overrides` (unspec): only model = implementation is checked there',
               'a refusal by require_kwargs counts as a refusal also when building its message fails on an argument whose __repr__ raises (FunctionCall.assert_uses_kwargs still '
               'formats the refused arguments themselves: generated fact refusalMessageFormatsRawArguments, followed by the model; message and class of a refusal are C05\'s subject)',
               'ENABLE_PEDANTIC is unset (for_all_methods consults it: C09)',
               'bodies do not suspend (coroutines complete on their first step); event-loop interleaving is out of scope',
               'for require_kwargs WHICH positional calls are refused is C05; C18 claims: a positional call is either refused with PedanticCallWithArgsException '
               'before anything underneath runs, or goes through unchanged (every argument of the caller reaches the callable)',
               'a staticmethod / classmethod OBJECT handed to require_kwargs (the decorator written above @staticmethod / @classmethod) is not a function: '
               'modelled and compared (every call raises PedanticTypeCheckException), nothing claimed']
TRUSTED = ['functools.wraps copies __name__/__qualname__/__doc__/__module__/__dict__ and sets __wrapped__ (CPython); the model takes "carries @wraps(<decorated function>)" as "metadata preserved"',
           'inspect.iscoroutinefunction(f) is true exactly for `async def` functions that are not generators',
           'Python argument binding is modelled (PedVerif.Utility.bind) and exercised against the twin on every case',
           'the generator protocol (PedVerif.Utility.genStep: generator and async generator objects under next / send / throw / close, `yield from` delegation) and property '
           'access on instances (propAccess) are environment models of CPython 3.12, compared with the undecorated twin on every generator / property case',
           'identity of a generator object is observed as "its code object is the decorated function\'s own" (gi_code / ag_code)',
           'the member loop of for_all_methods (getattr / setattr of a plain function) is modelled by hand; the translator only re-reads the facts it relies on',
           'the class description handed to the model for `overrides` is read off the raw `__mro__` / `__dict__` of the generated classes and of their '
           'metaclass (descriptor protocol applied once per entry); attribute lookup on classes (PedVerif.Utility.ClassDesc.dir / getattr / owns) is an '
           'environment model of CPython 3.12 `type.__dir__` / `type.__getattribute__` without data descriptors on the metaclass, compared with the real '
           'dir / hasattr / getattr on every overrides case; "the base class has the name" is read as: listed by the class (bound in a class body along '
           'its MRO, or returned by a metaclass `__dir__`)']

KEY = {'self': 1, 'a': 2, 'b': 3, 'c': 4, 'd': 5, 'zz': 6, 'yy': 7, 'cls': 8}
KEYNAME = {v: k for k, v in KEY.items()}
SELF_ID, CLS_ID, PARAM_ID, PARAM_CLS = 50, 51, 90, 900
UTIL = ['trace', 'timer', 'count_calls', 'deprecated', 'trace_if_returns', 'does_same_as_function', 'rename_kwargs',
        'overrides', 'require_kwargs', 'mock', 'unimplemented']
ATTRS_ONLY = ['pedantic', 'validate', 'in_subprocess', 'retry', 'safe_contextmanager', 'safe_async_contextmanager']
FINDING = 'forAllMethodsRebindsStaticAndClassMethods'

# ------------------------------------------------------------------ signatures and call styles

SHAPES = {
    # name: (parameter list source, named pairs source, extras source, Sig)
    'pos': ('a, b', "[('a', a), ('b', b)]", '(), {}', dict(pos=[2, 3], kwonly=[], defaults=[], varpos=False, varkw=False)),
    'kw': ('*, a, b=None', "[('a', a), ('b', b)]", '(), {}', dict(pos=[], kwonly=[2, 3], defaults=[3], varpos=False, varkw=False)),
    'star': ('*args, **kwargs', '[]', 'args, kwargs', dict(pos=[], kwonly=[], defaults=[], varpos=True, varkw=True)),
    'method': ('self, a, b', "[('self', self), ('a', a), ('b', b)]", '(), {}', dict(pos=[1, 2, 3], kwonly=[], defaults=[], varpos=False, varkw=False)),
    'mixed': ('a, b=None, *args, c=None, **kwargs', "[('a', a), ('b', b), ('c', c)]", 'args, kwargs',
              dict(pos=[2, 3], kwonly=[4], defaults=[3, 4], varpos=True, varkw=True)),
    # members of decorated classes
    'm_method': ('self, a, b', "[('self', self), ('a', a), ('b', b)]", '(), {}', dict(pos=[1, 2, 3], kwonly=[], defaults=[], varpos=False, varkw=False)),
    'm_method_star': ('self, *args, **kwargs', "[('self', self)]", 'args, kwargs', dict(pos=[1], kwonly=[], defaults=[], varpos=True, varkw=True)),
    'm_static': ('a, b', "[('a', a), ('b', b)]", '(), {}', dict(pos=[2, 3], kwonly=[], defaults=[], varpos=False, varkw=False)),
    'm_static_star': ('*args, **kwargs', '[]', 'args, kwargs', dict(pos=[], kwonly=[], defaults=[], varpos=True, varkw=True)),
    'm_classm': ('cls, a, b', "[('cls', cls), ('a', a), ('b', b)]", '(), {}', dict(pos=[8, 2, 3], kwonly=[], defaults=[], varpos=False, varkw=False)),
    'm_classm_star': ('cls, *args, **kwargs', "[('cls', cls)]", 'args, kwargs', dict(pos=[8], kwonly=[], defaults=[], varpos=True, varkw=True)),
    'm_prop': ('self', "[('self', self)]", '(), {}', dict(pos=[1], kwonly=[], defaults=[], varpos=False, varkw=False)),
    # the second / third function a shared decorator object is applied to: other parameter names (a body event says which function ran)
    'pos_cd': ('c, d', "[('c', c), ('d', d)]", '(), {}', dict(pos=[4, 5], kwonly=[], defaults=[], varpos=False, varkw=False)),
    'pos_bd': ('b, d', "[('b', b), ('d', d)]", '(), {}', dict(pos=[3, 5], kwonly=[], defaults=[], varpos=False, varkw=False)),
    # re-entrant calls (recursion / callbacks): a parameter that can carry the callback
    're': ('a, b=None, *, c=None', "[('a', a), ('b', b), ('c', c)]", '(), {}', dict(pos=[2, 3], kwonly=[4], defaults=[3, 4], varpos=False, varkw=False)),
    # callables under require_kwargs: *args + keyword-only (+ **kwargs), and controls without *args; f = no first parameter, m = self, c = cls
    'rk_f': ('*args, c=None', "[('c', c)]", 'args, {}', dict(pos=[], kwonly=[4], defaults=[4], varpos=True, varkw=False)),
    'rk_fk': ('*args, c=None, **kwargs', "[('c', c)]", 'args, kwargs', dict(pos=[], kwonly=[4], defaults=[4], varpos=True, varkw=True)),
    'rk_fa': ('*args', '[]', 'args, {}', dict(pos=[], kwonly=[], defaults=[], varpos=True, varkw=False)),
    'rk_fab': ('a, b=None', "[('a', a), ('b', b)]", '(), {}', dict(pos=[2, 3], kwonly=[], defaults=[3], varpos=False, varkw=False)),
    'rk_m': ('self, *args, c=None', "[('self', self), ('c', c)]", 'args, {}', dict(pos=[1], kwonly=[4], defaults=[4], varpos=True, varkw=False)),
    'rk_mk': ('self, *args, c=None, **kwargs', "[('self', self), ('c', c)]", 'args, kwargs', dict(pos=[1], kwonly=[4], defaults=[4], varpos=True, varkw=True)),
    'rk_ma': ('self, *args', "[('self', self)]", 'args, {}', dict(pos=[1], kwonly=[], defaults=[], varpos=True, varkw=False)),
    'rk_mab': ('self, a, b=None', "[('self', self), ('a', a), ('b', b)]", '(), {}', dict(pos=[1, 2, 3], kwonly=[], defaults=[3], varpos=False, varkw=False)),
    'rk_c': ('cls, *args, c=None', "[('cls', cls), ('c', c)]", 'args, {}', dict(pos=[8], kwonly=[4], defaults=[4], varpos=True, varkw=False)),
    'rk_ck': ('cls, *args, c=None, **kwargs', "[('cls', cls), ('c', c)]", 'args, kwargs', dict(pos=[8], kwonly=[4], defaults=[4], varpos=True, varkw=True)),
    'rk_ca': ('cls, *args', "[('cls', cls)]", 'args, {}', dict(pos=[8], kwonly=[], defaults=[], varpos=True, varkw=False)),
    'rk_cab': ('cls, a, b=None', "[('cls', cls), ('a', a), ('b', b)]", '(), {}', dict(pos=[8, 2, 3], kwonly=[], defaults=[3], varpos=False, varkw=False)),
}
A, B, C3, D4, E5 = 11, 12, 13, 14, 15
CB_ID = 16          # the callback object of the re-entrant programs
THROW_EXC, THROW_BASE = 401, 402     # the exception objects a caller throws into a generator (an Exception, a BaseException)
STYLES = {
    'P2': ([A, B], []), 'K2': ([], [[2, A], [3, B]]), 'M': ([A], [[3, B]]), 'K2r': ([], [[3, B], [2, A]]),
    'RZ': ([], [[6, A], [3, B]]), 'RC': ([], [[6, A], [2, C3], [3, B]]), 'RY': ([], [[2, A], [7, B]]),
    'P1': ([A], []), 'K1': ([], [[2, A]]), 'E': ([], []), 'P3': ([A, B, C3], []),
    'X': ([A, B, C3], [[4, D4], [5, E5]]), 'Kd': ([], [[2, A], [5, E5]]),
    'P2cb': ([A, B], [[4, CB_ID]]), 'K2cb': ([], [[2, A], [3, B], [4, CB_ID]]), 'P1cb': ([A], [[4, CB_ID]]), 'Ecb': ([], [[4, CB_ID]]), 'P3cb': ([A, B, C3], [[4, CB_ID]]),
    'L2': ([], [[4, A], [5, B]]), 'N2': ([], [[3, A], [5, B]]),
    'P3c': ([A, B, C3], [[4, D4]]), 'P1c': ([A], [[4, D4]]), 'Kc': ([], [[4, D4]]), 'P5': ([A, B, C3, D4, E5], []),
}
# require_kwargs forms: which first parameter the shapes have, and the call styles per kind of signature
RK_FORMS = {'plain': 'f', 'method': 'm', 'static_below': 'f', 'static_above': 'f', 'classm_below': 'c', 'classm_above': 'c', 'bound': 'm', 'bound_classm': 'c'}
RK_ACCESS = {'plain': [None], 'method': ['instance'], 'static_below': ['instance', 'cls'], 'static_above': ['instance', 'cls'],
             'classm_below': ['instance', 'cls'], 'classm_above': ['instance', 'cls'], 'bound': [None], 'bound_classm': [None]}
RK_STYLES = {'': ['P3c', 'P3', 'P1', 'P2', 'P5', 'Kc', 'E', 'X', 'P1c'], 'k': ['P3c', 'P3', 'P1', 'Kc', 'E', 'X'], 'a': ['P3', 'P1', 'E', 'P5', 'Kc'],
             'ab': ['K2', 'M', 'P2', 'P1', 'K1', 'P3']}
STAGED_POOL = ['trace', 'timer', 'count_calls', 'deprecated', 'trace_if_returns', 'does_same_as_function', 'rename_kwargs', 'mock', 'unimplemented']
SHAPE_STYLES = {
    'pos': ['P2', 'K2', 'M', 'K2r', 'RZ', 'RC', 'RY', 'P1', 'P3'],
    'kw': ['K2', 'K1', 'K2r', 'RZ', 'RC', 'P1', 'E'],
    'star': ['P2', 'K2', 'M', 'E', 'RZ', 'RC', 'X'],
    'method': ['P2', 'K2', 'M', 'RZ', 'RC', 'P1'],
    'mixed': ['P1', 'P2', 'X', 'K2', 'RZ', 'Kd', 'E'],
    'm_method': ['P2', 'K2', 'P1'], 'm_method_star': ['P2', 'E', 'M'], 'm_static': ['P2', 'K2', 'P1'], 'm_static_star': ['P2', 'E', 'M'],
    'm_classm': ['P2', 'K2', 'P1'], 'm_classm_star': ['P2', 'E', 'M'], 'm_prop': ['E'],
}
MAIN_STYLE = {'pos': 'P2', 'kw': 'K2', 'star': 'M', 'method': 'P2', 'mixed': 'X'}
KW_STYLE = {'pos': 'K2', 'kw': 'K2', 'star': 'K2', 'method': 'K2', 'mixed': 'K2'}
RENAME_SETS = {'z': [[6, 2]], 'zy': [[6, 2], [7, 3]], 'dup': [[6, 2], [6, 3]], 'ab': [[2, 3]], 'none': [], 'swap': [[2, 3], [3, 2]]}
OUTCOMES = ['ret', 'retp', 'exc', 'base']
# result objects that happen to be awaitable (returned by a function that is NOT a coroutine function, or produced by awaiting one): an
# object with __await__ (equality like every other result object), a finished asyncio.Future, a pending asyncio.Task
AW_OUTCOMES = ['reta', 'retf', 'rett']


def outcome_script(kinds, first_id=100):
    """['ret'|'retp'|'exc'|'base', …] -> script entries for the wire"""
    out = []
    for i, k in enumerate(kinds):
        if k in ('ret', 'reta', 'retf', 'rett'):
            out.append(['ret', first_id + i, first_id + i])          # own equality class
        elif k == 'retp':
            out.append(['ret', first_id + i, PARAM_CLS])              # equal to the decorator parameter, not identical
        elif k == 'exc':
            out.append(['exc', first_id + i, False])
        else:
            out.append(['exc', first_id + i, True])
    return out


def other_script(kinds, wscript, first_id=300):
    """other_func outcomes relative to the body's: same (identical object) | equal | diff | exc"""
    out = []
    for i, k in enumerate(kinds):
        w = wscript[i] if i < len(wscript) else None
        if k == 'same' and w and w[0] == 'ret':
            out.append(['ret', w[1], w[2]])
        elif k in ('equal', 'same') and w and w[0] == 'ret':
            out.append(['ret', first_id + i, w[2]])
        elif k == 'exc':
            out.append(['exc', first_id + i, False])
        else:
            out.append(['ret', first_id + i, first_id + i])
    return out


# ------------------------------------------------------------------ base classes for `overrides`

# interned attribute names (members of generated classes and names of decorated functions)
MEMBER_KEY = {'target': 100, 'something_else': 101, 'handler': 102, '__hash__': 103, '__eq__': 104, 'mro': 105, '__call__': 106,
              '__init__': 107, 'keys': 108, '__dir__': 109, '__getattr__': 110, '__slots__': 111, '__str__': 112, '__len__': 113,
              '__subclasses__': 114, 'register': 115, '__class_getitem__': 116, '__init_subclass__': 117}
# names a decorated function is given in the decoration-only programs
FNAMES = ['target', 'handler', '__hash__', '__eq__', 'mro', '__call__', '__init__', 'keys', '__str__', '__len__', '__subclasses__', 'register']
_FN = 'def {n}(self, *args, **kwargs):\n        return 1\n'
# variant -> (source defining `Base`; `{n}` is the member under test, usable in the call programs (instances behave like plain objects))
BASES = {
    'plain': ('class Base:\n    ' + _FN, True),
    'none_valued': ('class Base:\n    {n} = None\n', True),
    'falsy_zero': ('class Base:\n    {n} = 0\n', True),
    'falsy_str': ("class Base:\n    {n} = ''\n", True),
    'falsy_false': ('class Base:\n    {n} = False\n', True),
    'falsy_tuple': ('class Base:\n    {n} = ()\n', True),
    'truthy_value': ('class Base:\n    {n} = 1\n', True),
    'prop': ('class Base:\n    @property\n    def {n}(self):\n        return 1\n', True),
    'static': ('class Base:\n    @staticmethod\n    def {n}(*args, **kwargs):\n        return 1\n', True),
    'classm': ('class Base:\n    @classmethod\n    def {n}(cls, *args, **kwargs):\n        return 1\n', True),
    'parent': ('class G:\n    ' + _FN + 'class Base(G):\n    pass\n', True),
    'grandparent': ('class GG:\n    ' + _FN + 'class G(GG):\n    pass\nclass Base(G):\n    pass\n', True),
    'grand_none': ('class GG:\n    {n} = None\nclass G(GG):\n    pass\nclass Base(G):\n    pass\n', True),
    'mixin_second': ('class G:\n    pass\nclass Mix:\n    ' + _FN + 'class Base(G, Mix):\n    pass\n', True),
    'shadow_none': ('class G:\n    ' + _FN + 'class Base(G):\n    {n} = None\n', True),
    'shadow_fn': ('class G:\n    {n} = None\nclass Base(G):\n    ' + _FN, True),
    'meta_only': ('class Meta(type):\n    def {n}(cls, *args, **kwargs):\n        return 1\nclass Base(metaclass=Meta):\n    pass\n', True),
    'meta_none': ('class Meta(type):\n    {n} = None\nclass Base(metaclass=Meta):\n    pass\n', True),
    'meta_parent': ('class M0(type):\n    def {n}(cls, *args, **kwargs):\n        return 1\nclass Meta(M0):\n    pass\nclass Base(metaclass=Meta):\n    pass\n', True),
    'meta_and_own_none': ('class Meta(type):\n    def {n}(cls, *args, **kwargs):\n        return 1\nclass Base(metaclass=Meta):\n    {n} = None\n', True),
    'meta_of_parent': ('class Meta(type):\n    def {n}(cls, *args, **kwargs):\n        return 1\nclass G(metaclass=Meta):\n    pass\nclass Base(G):\n    pass\n', True),
    'dir_adds': ("class Meta(type):\n    def __dir__(cls):\n        return list(super().__dir__()) + ['{n}']\nclass Base(metaclass=Meta):\n    pass\n", True),
    'dir_hides': ("class Meta(type):\n    def __dir__(cls):\n        return [x for x in super().__dir__() if x != '{n}']\nclass Base(metaclass=Meta):\n    " + _FN, True),
    'instance_dir': ("class Base:\n    def __dir__(self):\n        return ['{n}']\n", True),
    'meta_getattr': ('class Meta(type):\n    def __getattr__(cls, name):\n        return lambda *args, **kwargs: 1\nclass Base(metaclass=Meta):\n    pass\n', True),
    'meta_getattr_none': ('class Meta(type):\n    def __getattr__(cls, name):\n        return None\nclass Base(metaclass=Meta):\n    pass\n', True),
    'meta_getattr_and_own_none': ('class Meta(type):\n    def __getattr__(cls, name):\n        return lambda *args, **kwargs: 1\nclass Base(metaclass=Meta):\n    {n} = None\n', True),
    'instance_getattr': ('class Base:\n    def __getattr__(self, name):\n        raise AttributeError(name)\n', True),
    'slots': ("class Base:\n    __slots__ = ('{n}',)\n", True),
    'instance_attr_only': ('class Base:\n    def __init__(self):\n        self.{n} = 1\n', False),
    'annotation_only': ('class Base:\n    {n}: int\n', True),
    'desc_none': ('class D:\n    def __get__(self, obj, owner=None):\n        return None\nclass Base:\n    {n} = D()\n', True),
    'desc_falsy': ('class D:\n    def __get__(self, obj, owner=None):\n        return 0\nclass Base:\n    {n} = D()\n', True),
    'abstract': ('import abc\nclass Base(abc.ABC):\n    @abc.abstractmethod\n    ' + _FN, False),
    'dict_subclass': ('class Base(dict):\n    pass\n', True),
    'dataclass_default_none': ('import dataclasses\n@dataclasses.dataclass\nclass Base:\n    {n}: object = None\n', False),
    'dataclass_factory': ('import dataclasses\n@dataclasses.dataclass\nclass Base:\n    {n}: list = dataclasses.field(default_factory=list)\n', False),
    'defines_eq': ('class Base:\n    def __eq__(self, other):\n        return NotImplemented\n', True),
    'parent_defines_eq': ('class G:\n    def __eq__(self, other):\n        return NotImplemented\nclass Base(G):\n    pass\n', True),
    'eq_and_hash': ('class Base:\n    def __eq__(self, other):\n        return NotImplemented\n    def __hash__(self):\n        return 1\n', True),
    'hash_restored_in_child': ('class G:\n    def __eq__(self, other):\n        return NotImplemented\nclass Base(G):\n    __hash__ = object.__hash__\n', True),
}
_DESC_CACHE = {}


def base_source(variant, member):
    return BASES[variant][0].replace('{n}', member)


def _seen(v):
    return [v is None, bool(v), bool(callable(v))]


def describe(variant, member, fname):
    """the class description the Lean model gets: read off the raw `__mro__` / `__dict__` of the generated classes (of the class
    and of its metaclass); None when the classes cannot be built or leave the modelled fragment (a data descriptor on the metaclass)"""
    key = (variant, member, fname)
    if key in _DESC_CACHE:
        return _DESC_CACHE[key]
    desc = None
    try:
        ns = {'__name__': 'c18_base_probe'}
        exec(compile(base_source(variant, member), '<c18 base>', 'exec'), ns)
        Base = ns['Base']
        meta = type(Base)

        def via_class(raw):
            g = getattr(type(raw), '__get__', None)
            return g(raw, None, Base) if g is not None else raw

        def via_meta(raw):
            t = type(raw)
            if hasattr(t, '__set__') or hasattr(t, '__delete__'):
                raise LookupError('data descriptor on the metaclass')
            g = getattr(t, '__get__', None)
            return g(raw, Base, meta) if g is not None else raw
        mro = [sorted([MEMBER_KEY[n]] + _seen(via_class(C.__dict__[n])) for n in C.__dict__ if n in MEMBER_KEY) for C in Base.__mro__]
        meta_mro = [sorted([MEMBER_KEY[n]] + _seen(via_meta(M.__dict__[n])) for n in M.__dict__ if n in MEMBER_KEY) for M in meta.__mro__]
        mg = None
        if any('__getattr__' in M.__dict__ for M in meta.__mro__):
            mg = _seen(meta.__getattr__(Base, fname))
        do = None
        if any('__dir__' in M.__dict__ for M in meta.__mro__ if M not in (type, object)):
            do = sorted(MEMBER_KEY[n] for n in dir(Base) if n in MEMBER_KEY)
        desc = {'mro': mro, 'metaMro': meta_mro, 'metaGetattr': mg, 'dirOverride': do}
    except Exception:
        desc = None
    _DESC_CACHE[key] = desc
    return desc


def base_of(l):
    """(variant, member) of an overrides layer; layers of older corpus / replay files only say `baseHas`"""
    if 'base' in l:
        return l['base'], l['member']
    return 'plain', ('target' if l.get('baseHas', True) else 'something_else')


def class_obs(Base, fname):
    """what the real interpreter answers to the tests a decorator could make on the class (compared with the model's class lookup)"""
    v = getattr(Base, fname, None)
    return [fname in dir(Base), hasattr(Base, fname), fname in Base.__dict__, v is None, bool(v), bool(callable(v))]


# ------------------------------------------------------------------ cases

def layer(d, **kw):
    l = {'d': d, 'renames': kw.get('renames', 'z'), 'base': kw.get('base', 'plain'), 'member': kw.get('member', 'target')}
    return l


BAD_KINDS = ['repr', 'str', 'eq', 'ne']
FORMAT_FINDING, COMPARE_FINDING = 'traceFormatsArgumentsAndResults', 'comparisonsCallUserEq'
FINDING_OF = {'ReprErr': FORMAT_FINDING, 'StrErr': FORMAT_FINDING, 'EqErr': COMPARE_FINDING, 'NeErr': COMPARE_FINDING}


def traits_wire(bad):
    """{identity: [kinds]} -> [[id, reprRaises, strRaises, eqRaises, neRaises]…]"""
    return [[int(i)] + [k in ks for k in BAD_KINDS] for i, ks in sorted((bad or {}).items(), key=lambda kv: int(kv[0]))]


def mk(layers, flavour, shape, styles, wkinds, okinds=None, other_flavour=None, member=None, mode='ignore', origin=None, bad=None):
    """x: everything the Python side needs; c: what the Lean driver gets (derived from x)"""
    first = next((l for l in layers if l['d'] == 'overrides'), None)
    if first:          # one `Base` per program: every overrides layer of the stack names the same class
        layers = [dict(l, base=base_of(first)[0], member=base_of(first)[1]) if l['d'] == 'overrides' else l for l in layers]
    x = {'layers': layers, 'flavour': flavour, 'shape': shape, 'styles': list(styles), 'wkinds': list(wkinds),
         'okinds': list(okinds) if okinds is not None else ['equal'] * (2 * len(wkinds) + 2),
         'other_flavour': other_flavour or flavour, 'member': member, 'mode': mode}
    if bad:
        # a Future / Task is no object of the harness' class: it has no methods that could be made to raise
        bad = {i: ks for i, ks in bad.items() if not (100 <= int(i) < 100 + len(wkinds) and wkinds[int(i) - 100] in ('retf', 'rett'))}
    if bad:
        x['bad'] = {str(i): list(ks) for i, ks in bad.items()}
    case = {'m': 'utility', 'c': wire(x), 'x': x}
    if origin:
        case['origin'] = origin
    return case


def mk_attrs(d, flavour):
    return {'m': 'utility', 'c': {'kind': 'attrs', 'd': d, 'coro': flavour == 'async'}, 'x': {'attrs': d, 'flavour': flavour}}


def guard_for(x, j):
    """what DecoratedFunction reads off the source of the function that the require_kwargs layer j wraps"""
    layers = x['layers']
    shape = x['shape']
    below = layers[j + 1:]
    innermost = all(l['d'] == 'overrides' for l in below)
    return {'wantsArgs': SHAPES[shape][2] != '(), {}' and '*args' in SHAPES[shape][0],
            'selfFirst': innermost and shape == 'method', 'isStatic': False, 'nDeco': len(layers), 'marker': any(l['d'] == 'require_kwargs' for l in layers)}


NO_GUARD = {'wantsArgs': False, 'selfFirst': False, 'isStatic': False, 'nDeco': 0, 'marker': False}


def wire(x):
    shape = x['shape']
    sig = SHAPES[shape][3]
    wscript = outcome_script(x['wkinds'])
    oscript = other_script(x['okinds'], wscript)
    osig = dict(sig)
    layers = []
    for j, l in enumerate(x['layers']):
        wl = {'d': l['d'], 'param': [PARAM_ID, PARAM_CLS], 'renames': RENAME_SETS[l['renames']],
              'guard': (rk_guard(x, j) if 'rk' in x else guard_for(x, j)) if l['d'] == 'require_kwargs' else NO_GUARD}
        if l['d'] == 'overrides':
            wl['base'] = describe(*base_of(l), 'target')
            wl['fname'] = MEMBER_KEY['target']
            if wl['base'] is None:
                raise RuntimeError(f'base class variant {base_of(l)} cannot be described')
        layers.append(wl)
    c = {'kind': 'call',
         'body': {'coro': x['flavour'] == 'async', 'sig': sig, 'script': wscript},
         'other': {'coro': x['other_flavour'] == 'async', 'sig': osig, 'script': oscript},
         'layers': layers, 'member': None, 'self': SELF_ID if shape == 'method' else None,
         'calls': [{'pos': STYLES[s][0], 'kw': STYLES[s][1]} for s in x['styles']]}
    if x.get('bad'):
        c['traits'] = traits_wire(x['bad'])
    if 'rk' in x:
        outer, inner, twin = rk_binding(x['rk'], x['access'])
        c.update({'self': outer, 'innerSelf': inner, 'twinSelf': twin})
    if x['member']:
        m = x['member']
        c['member'] = {'kind': m['kind'], 'access': m['access'], 'self': SELF_ID, 'cls': CLS_ID, 'cdeco': m['cdeco'],
                       'params': {'param': [PARAM_ID, PARAM_CLS], 'renames': [], 'baseHas': True, 'guard': NO_GUARD}}
        c['layers'] = []
        c['self'] = None
    return c


def rk_guard(x, j):
    """what DecoratedFunction reads off the callable the require_kwargs layer j of an rk program wraps (inspect.getsource of a function
    includes ALL its decorator lines; of a bound method: the source of the undecorated method)"""
    form, shape = x['rk'], x['shape']
    n_lines = len(x['layers']) + (1 if form in ('static_below', 'classm_below') else 0)
    g = {'wantsArgs': '*args' in SHAPES[shape][0], 'selfFirst': RK_FORMS[form] == 'm', 'isStatic': form == 'static_below', 'nDeco': n_lines,
         'marker': True, 'isMethodObj': False, 'notFunction': form in ('static_above', 'classm_above')}
    if form in ('bound', 'bound_classm'):
        g.update(nDeco=1 if form == 'bound_classm' else 0, marker=False, isMethodObj=True)
    return g


def rk_binding(form, access):
    """(bound in front of the decorated callable, bound below the decorators, bound in front of the twin); 0 = nothing"""
    return {('plain', None): (None, None, 0), ('method', 'instance'): (SELF_ID, None, SELF_ID),
            ('static_below', 'instance'): (None, None, 0), ('static_below', 'cls'): (None, None, 0),
            ('static_above', 'instance'): (SELF_ID, None, 0), ('static_above', 'cls'): (None, None, 0),
            ('classm_below', 'instance'): (CLS_ID, None, CLS_ID), ('classm_below', 'cls'): (CLS_ID, None, CLS_ID),
            ('classm_above', 'instance'): (SELF_ID, None, CLS_ID), ('classm_above', 'cls'): (None, None, CLS_ID),
            ('bound', None): (None, SELF_ID, SELF_ID), ('bound_classm', None): (None, CLS_ID, CLS_ID)}[(form, access)]


def mk_rk(form, access, shape, flavour, styles, wkinds, layers=None, mode='ignore'):
    layers = layers or [layer('require_kwargs')]
    x = {'rk': form, 'access': access, 'layers': layers, 'flavour': flavour, 'shape': shape, 'styles': list(styles), 'wkinds': list(wkinds),
         'okinds': ['equal'] * (2 * len(wkinds) + 2), 'other_flavour': flavour, 'member': None, 'mode': mode}
    return {'m': 'utility', 'c': wire(x), 'x': x}


def rk_cases(tier):
    out = []
    for form, first in RK_FORMS.items():
        for access in RK_ACCESS[form]:
            for suffix in ('', 'k', 'a', 'ab'):
                shape = f'rk_{first}{suffix}'
                for flavour in ('sync', 'async'):
                    for style in RK_STYLES[suffix]:
                        for wk in (('ret', 'exc') if style in ('P3c', 'P3', 'K2', 'M') else ('ret',)):
                            out.append(mk_rk(form, access, shape, flavour, [style], [wk, wk]))
                    # a history through one decorated callable, and the same under trace (two decorator lines)
                    st = RK_STYLES[suffix][:4]
                    out.append(mk_rk(form, access, shape, flavour, st, ['ret', 'exc', 'ret', 'base', 'ret', 'ret', 'ret', 'ret']))
                    if form in ('plain', 'method', 'static_below', 'classm_below'):
                        for ls in (['trace', 'require_kwargs'], ['count_calls', 'require_kwargs']):
                            out.append(mk_rk(form, access, shape, flavour, st, ['ret', 'ret', 'exc', 'ret', 'ret', 'ret', 'ret', 'ret'], [layer(d) for d in ls]))
    return out


def mk_staged(stages, flavour, wkinds, preset=None, okinds=None, other_flavour=None, mode='ignore', shape='pos'):
    """stages: [(decorators added at this stage, outermost first, [call styles])]"""
    n = sum(len(st) for _, st in stages)
    x = {'staged': [{'layers': [layer(d) if isinstance(d, str) else d for d in ds], 'styles': list(st)} for ds, st in stages], 'preset': preset,
         'flavour': flavour, 'shape': shape, 'wkinds': list(wkinds), 'okinds': list(okinds) if okinds is not None else ['equal'] * (2 * n + 2),
         'other_flavour': other_flavour or flavour, 'mode': mode}
    return {'m': 'utility', 'c': wire_staged(x), 'x': x}


def wire_staged(x):
    sig = SHAPES[x['shape']][3]
    wscript = outcome_script(x['wkinds'])
    oscript = other_script(x['okinds'], wscript)
    return {'kind': 'staged', 'preset': x['preset'],
            'body': {'coro': x['flavour'] == 'async', 'sig': sig, 'script': wscript},
            'other': {'coro': x['other_flavour'] == 'async', 'sig': dict(sig), 'script': oscript},
            'stages': [{'layers': [{'d': l['d'], 'param': [PARAM_ID, PARAM_CLS], 'renames': RENAME_SETS[l['renames']], 'guard': NO_GUARD} for l in st['layers']],
                        'calls': [{'pos': STYLES[s][0], 'kw': STYLES[s][1]} for s in st['styles']]} for st in x['staged']]}


def staged_cases(rng, tier):
    """decoration of callables that already carry attributes"""
    out = []
    sty = ['P2', 'K2', 'M', 'P2', 'K2r', 'P1']
    for flavour in ('sync', 'async'):
        for k in range(0, 6):                      # the counted function has been called k times (P1 does not bind: counted all the same)
            for n in (1, 3):
                wk = [rng.choice(OUTCOMES) for _ in range(2 * (k + n) + 2)]
                # count_calls(counted), directly and through every other decorator in between
                out.append(mk_staged([(['count_calls'], sty[:k]), (['count_calls'], sty[:n])], flavour, wk))
                for d in STAGED_POOL:
                    out.append(mk_staged([(['count_calls'], sty[:k]), (['count_calls', d], sty[:n])], flavour, wk, mode='always'))
                    if k in (0, 2):
                        out.append(mk_staged([(['count_calls'], sty[:k]), ([d], sty[:1]), (['count_calls'], sty[:n])], flavour, wk, mode='always'))
                # re-decoration after calls, three times over
                out.append(mk_staged([(['count_calls'], sty[:k]), (['count_calls'], sty[:n]), (['count_calls'], sty[:2])], flavour, wk))
        # attributes set by hand on the raw function (num_calls and another __dict__ entry)
        for preset in (0, 7, -3):
            for ds in (['count_calls'], ['count_calls', 'count_calls'], ['count_calls', 'trace'], ['trace', 'count_calls'], ['trace'], ['count_calls', 'timer', 'deprecated']):
                out.append(mk_staged([(ds, sty[:3])], flavour, ['ret', 'exc', 'ret', 'base', 'ret', 'ret', 'ret', 'ret'], preset=preset))
                out.append(mk_staged([(ds, sty[:2]), (['count_calls'], sty[:2])], flavour, ['ret'] * 10, preset=preset))
    return out + rand_staged(rng, 150 if tier == 'quick' else 4000)


def rand_staged(rng, n):
    out = []
    for _ in range(n):
        stages = []
        for _ in range(rng.randint(2, 4)):
            ds = [rng.choice(STAGED_POOL if rng.random() < 0.4 else ['count_calls', 'count_calls', 'trace', 'timer', 'deprecated', 'trace_if_returns'])
                  for _ in range(rng.choice([1, 1, 2]))]
            ds = [layer(d, renames=rng.choice(list(RENAME_SETS))) for d in ds]
            stages.append((ds, [rng.choice(['P2', 'K2', 'M', 'K2r', 'P1', 'RZ']) for _ in range(rng.choice([0, 1, 2, 3, 5]))]))
        total = sum(len(st) for _, st in stages)
        out.append(mk_staged(stages, rng.choice(['sync', 'async']), [rng.choice(OUTCOMES + ['ret']) for _ in range(2 * total + 2)],
                             preset=rng.choice([None, None, 4]), okinds=[rng.choice(['same', 'equal', 'equal', 'diff', 'exc']) for _ in range(2 * total + 2)],
                             other_flavour=rng.choice(['sync', 'async']), mode=rng.choice(['ignore', 'default', 'always'])))
    return out


# ---- re-entrant calls: a call that starts while another call of the same decorated callable is open

def mk_reent(layers, flavour, mode, plan, ops, wkinds, warn='ignore'):
    """plan: [[style…]…] nested calls of invocation i; ops: [('invoke'|'call', style) | ('await', k)]; mode: 'direct' (the body calls the
    decorated callable by its module-level name) | 'callback' (it calls the callback it was handed as argument `c`)"""
    x = {'reent': {'mode': mode, 'plan': [list(p) for p in plan], 'ops': [list(o) for o in ops]},
         'layers': [layer(d) if isinstance(d, str) else d for d in layers], 'flavour': flavour, 'shape': 're', 'wkinds': list(wkinds),
         'okinds': ['equal'] * (len(wkinds) + 2), 'other_flavour': flavour, 'mode': warn}
    sig = SHAPES['re'][3]
    wscript = outcome_script(x['wkinds'])
    c = {'kind': 'reent', 'body': {'coro': flavour == 'async', 'sig': sig, 'script': wscript},
         'other': {'coro': flavour == 'async', 'sig': dict(sig), 'script': other_script(x['okinds'], wscript)},
         'layers': [{'d': l['d'], 'param': [PARAM_ID, PARAM_CLS], 'renames': RENAME_SETS[l['renames']], 'guard': NO_GUARD} for l in x['layers']],
         'plan': [[{'pos': STYLES[st][0], 'kw': STYLES[st][1]} for st in p] for p in plan],
         'ops': [[o[0], o[1]] if o[0] == 'await' else [o[0], {'pos': STYLES[o[1]][0], 'kw': STYLES[o[1]][1]}] for o in ops]}
    return {'m': 'utility', 'c': c, 'x': x}


RE_STACKS = [['count_calls'], ['count_calls', 'trace'], ['trace', 'count_calls'], ['count_calls', 'count_calls'], ['count_calls', 'deprecated'],
             ['timer', 'count_calls'], ['trace_if_returns', 'count_calls'], ['count_calls', 'rename_kwargs'], ['mock', 'count_calls'], ['count_calls', 'unimplemented']]


def reent_cases(rng, tier):
    out = []
    for mode in ('direct', 'callback'):
        cb = 'cb' if mode == 'callback' else ''
        S = lambda st: st + cb
        for flavour in ('sync', 'async'):
            for stack in RE_STACKS:
                # recursion depth 1..4: invocations 0..d-1 call the callable once more each
                for d in range(1, 5):
                    for wk in (['ret'] * 8, ['ret', 'exc', 'ret', 'base', 'ret', 'ret', 'ret', 'ret']):
                        out.append(mk_reent(stack, flavour, mode, [[S('P2')]] * d, [('invoke', S('P2'))], wk))
                    # … and a history of three top-level calls, the second and third re-entering as far as the plan goes on
                    out.append(mk_reent(stack, flavour, mode, [[S('P2')], [S('K2')], []] + [[S('P1')]] * (d - 1), [('invoke', S('P2')), ('invoke', S('K2')), ('invoke', S('P1'))],
                                        [rng.choice(OUTCOMES) for _ in range(10)]))
                # branching: the first invocation calls twice, each of those once; a nested call that does not bind
                out.append(mk_reent(stack, flavour, mode, [[S('P2'), S('K2')], [S('P1')], [S('P2')]], [('invoke', S('P2')), ('invoke', S('P2'))], ['ret'] * 12))
                out.append(mk_reent(stack, flavour, mode, [[S('E'), S('P2'), S('P3')], [S('E')]], [('invoke', S('P2')), ('invoke', S('E'))], ['ret', 'exc', 'ret', 'ret', 'ret']))
                # two calls in flight: both started before either is awaited (coroutine functions; for plain functions `call` is the whole call)
                out.append(mk_reent(stack, flavour, mode, [], [('call', S('P2')), ('call', S('K2')), ('await', 1), ('await', 0)], ['ret'] * 4))
                out.append(mk_reent(stack, flavour, mode, [[S('P2')], [], [S('P1')]], [('call', S('P2')), ('call', S('K2')), ('invoke', S('P1')), ('await', 1), ('await', 0)],
                                    ['ret', 'exc', 'ret', 'ret', 'base', 'ret', 'ret', 'ret']))
    return out + rand_reent(rng, 120 if tier == 'quick' else 4000)


def rand_reent(rng, n):
    out = []
    pool = ['trace', 'timer', 'count_calls', 'count_calls', 'deprecated', 'trace_if_returns']
    for _ in range(n):
        mode = rng.choice(['direct', 'callback'])
        cb = 'cb' if mode == 'callback' else ''
        sty = lambda: rng.choice(['P2', 'P2', 'K2', 'P1', 'E', 'P3']) + cb if mode == 'callback' else rng.choice(['P2', 'P2', 'K2', 'P1', 'M', 'E', 'P3'])
        stack = [rng.choice(pool if rng.random() < 0.85 else UTIL[:7] + ['mock', 'unimplemented']) for _ in range(rng.choice([1, 1, 2, 2, 3]))]
        if 'count_calls' not in stack:
            stack[rng.randrange(len(stack))] = 'count_calls'
        plan = [[sty() for _ in range(rng.choice([0, 1, 1, 1, 2]))] for _ in range(rng.randint(0, 6))]
        ops, open_calls = [], []
        for _ in range(rng.randint(1, 4)):
            r = rng.random()
            if r < 0.6:
                ops.append(('invoke', sty()))
            elif r < 0.85:
                open_calls.append(sum(1 for o in ops if o[0] == 'call')); ops.append(('call', sty()))
            elif open_calls:
                ops.append(('await', open_calls.pop(rng.randrange(len(open_calls)))))
        while open_calls:
            ops.append(('await', open_calls.pop(rng.randrange(len(open_calls)))))
        out.append(mk_reent([layer(d, renames=rng.choice(list(RENAME_SETS))) for d in stack], rng.choice(['sync', 'async']), mode, plan, ops,
                            [rng.choice(OUTCOMES + ['ret', 'ret']) for _ in range(16)], warn=rng.choice(['ignore', 'always'])))
    return out


def valid_layers(names, shape):
    return 'overrides' not in names or shape == 'method'


def singles(tier):
    out = []
    for d in UTIL:
        for flavour in ('sync', 'async'):
            for shape in ('pos', 'kw', 'star', 'method', 'mixed'):
                if not valid_layers([d], shape):
                    continue
                variants = [layer(d)]
                if d == 'rename_kwargs':
                    variants = [layer(d, renames=r) for r in RENAME_SETS]
                if d == 'overrides':
                    variants = [layer(d, base='plain', member='target'), layer(d, base='plain', member='something_else')]
                    # every other kind of base class, with the member under test called like the method and called otherwise
                    variants += [layer(d, base=v, member=mb) for v in BASES if BASES[v][1] and v != 'plain' for mb in ('target', 'something_else')]
                for lv in variants:
                    for style in SHAPE_STYLES[shape]:
                        if d == 'overrides' and lv['base'] != 'plain' and style not in (MAIN_STYLE[shape], KW_STYLE[shape]):
                            continue
                        if d == 'does_same_as_function':
                            for of in ('sync', 'async'):
                                for ok in ('same', 'equal', 'diff', 'exc'):
                                    for wk in OUTCOMES:
                                        if style != MAIN_STYLE[shape] and (wk != 'ret' or ok not in ('equal', 'diff')):
                                            continue
                                        out.append(mk([lv], flavour, shape, [style], [wk, wk], [ok, ok], other_flavour=of))
                        else:
                            for wk in OUTCOMES:
                                if style not in (MAIN_STYLE[shape], KW_STYLE[shape]) and wk not in ('ret', 'exc') and d != 'rename_kwargs':
                                    continue
                                out.append(mk([lv], flavour, shape, [style], [wk, wk]))
    return out


def pairs(tier):
    out = []
    k = 0
    for d1 in UTIL:
        for d2 in UTIL:
            for flavour in ('sync', 'async'):
                for shape in (('pos', 'kw', 'star', 'method') if tier == 'quick' else ('pos', 'kw', 'star', 'method', 'mixed')):
                    if not valid_layers([d1, d2], shape):
                        continue
                    k += 1
                    if tier == 'quick' and shape in ('kw', 'star') and (k % 3) != 0:
                        continue
                    st = [MAIN_STYLE[shape], KW_STYLE[shape], 'RZ', KW_STYLE[shape]]
                    wk = ['ret', 'retp', 'ret', 'exc', 'base', 'ret', 'ret', 'ret']
                    ok = ['equal', 'equal', 'diff', 'equal', 'equal', 'same', 'equal', 'equal']
                    out.append(mk([layer(d1), layer(d2)], flavour, shape, st, wk, ok, other_flavour=('sync', 'async')[k % 2],
                                  mode=('ignore', 'default', 'error', 'always')[k % 4]))
                    if tier == 'thorough':
                        out.append(mk([layer(d1), layer(d2)], flavour, shape, [KW_STYLE[shape], MAIN_STYLE[shape]] * 2,
                                      ['exc', 'base', 'retp', 'ret', 'ret', 'ret', 'ret', 'ret'], ['equal'] * 8, other_flavour=('async', 'sync')[k % 2],
                                      mode=('error', 'always', 'ignore', 'default')[k % 4]))
    return out


def members(tier):
    out = []
    for cdeco in ('trace_class', 'timer_class'):
        for kind, shapes in (('method', ['m_method', 'm_method_star']), ('static', ['m_static', 'm_static_star']),
                             ('classm', ['m_classm', 'm_classm_star']), ('prop', ['m_prop'])):
            for shape in shapes:
                for access in (('instance',) if kind in ('method', 'prop') else ('instance', 'cls')):
                    for flavour in (('sync',) if kind == 'prop' else ('sync', 'async')):
                        for style in SHAPE_STYLES[shape]:
                            for wk in ('ret', 'exc', 'base'):
                                out.append(mk([], flavour, shape, [style], [wk, wk], member={'kind': kind, 'access': access, 'cdeco': cdeco}))
    return out


def attrs_cases():
    out = []
    for d in ATTRS_ONLY + UTIL:
        for flavour in ('sync', 'async'):
            if d in ('overrides',):
                continue
            out.append(mk_attrs(d, flavour))
    return out


def random_cases(rng, n):
    out = []
    for _ in range(n):
        shape = rng.choice(['pos', 'kw', 'star', 'method', 'mixed'])
        depth = rng.choice([1, 2, 3, 3])
        pool = [d for d in UTIL if d != 'overrides' or shape == 'method']
        # transparent decorators more often, so that deep stacks reach the body
        names = [rng.choice(pool if rng.random() < 0.5 else ['trace', 'timer', 'count_calls', 'deprecated', 'trace_if_returns', 'rename_kwargs', 'require_kwargs', 'count_calls'])
                 for _ in range(depth)]
        call_ok = [v for v in BASES if BASES[v][1]]
        layers = [layer(d, renames=rng.choice(list(RENAME_SETS)), base=rng.choice(call_ok + ['plain'] * 10),
                        member='target' if rng.random() < 0.85 else 'something_else') for d in names]
        n_calls = rng.choice([1, 2, 3, 5, 8, 13, 20])
        styles = [rng.choice(SHAPE_STYLES[shape] + [MAIN_STYLE[shape], KW_STYLE[shape]] * 3) for _ in range(n_calls)]
        aw = ['reta'] + ([] if 'does_same_as_function' in names else ['retf', 'rett'])
        wk = [rng.choice(OUTCOMES + ['ret'] + (aw if rng.random() < 0.3 else [])) for _ in range(2 * n_calls + 2)]
        ok = [rng.choice(['same', 'equal', 'equal', 'equal', 'diff', 'exc']) for _ in range(2 * n_calls + 2)]
        bad = None
        if rng.random() < 0.15:
            bad = {rng.choice([A, B, C3, 100, 101, 300]): [rng.choice(BAD_KINDS)] for _ in range(rng.choice([1, 1, 2]))}
        out.append(mk(layers, rng.choice(['sync', 'async']), shape, styles, wk, ok, other_flavour=rng.choice(['sync', 'async']),
                      mode=rng.choice(['ignore', 'default', 'error', 'always', 'once']), bad=bad))
    return out


def counter_histories(rng, tier):
    """every history length 0..20 for the counter, outcomes cycling / random, with and without a second decorator"""
    out = []
    for n in range(0, 21):
        for flavour in ('sync', 'async'):
            for stack in (['count_calls'], ['count_calls', 'count_calls'], ['trace', 'count_calls'], ['count_calls', 'deprecated']):
                wk = [rng.choice(OUTCOMES) for _ in range(2 * n + 2)]
                out.append(mk([layer(d) for d in stack], flavour, 'pos', [rng.choice(['P2', 'K2', 'M', 'P1']) for _ in range(n)], wk))
    return out


def mk_ovr(variant, member, fname, flavour):
    """decoration-only program: `@overrides(Base)` on a method called `fname` (dunder names included), Base built from `variant`
    with `member` as the member under test"""
    desc = describe(variant, member, fname)
    if desc is None:
        return None
    sig = SHAPES['m_method_star'][3]
    x = {'ovr': {'base': variant, 'member': member, 'fname': fname}, 'flavour': flavour}
    c = {'kind': 'call', 'body': {'coro': flavour == 'async', 'sig': sig, 'script': []},
         'other': {'coro': False, 'sig': sig, 'script': []},
         'layers': [{'d': 'overrides', 'param': [PARAM_ID, PARAM_CLS], 'renames': [], 'guard': NO_GUARD, 'base': desc, 'fname': MEMBER_KEY[fname]}],
         'member': None, 'self': SELF_ID, 'calls': []}
    return {'m': 'utility', 'c': c, 'x': x}


def ovr_cases(tier):
    """the finite grid: every kind of base class x member under test {the function's name, every other name of the table} x
    function name (ordinary, dunder, names the metaclass `type` / `object` / `dict` bind)"""
    out, skipped = [], 0
    for variant in BASES:
        for fname in FNAMES:
            members = [fname, 'something_else'] + ([m for m in FNAMES if m != fname] if tier == 'thorough' else [])
            for member in members:
                for flavour in (('sync', 'async') if member == fname else ('sync',)):
                    c = mk_ovr(variant, member, fname, flavour)
                    if c is None:
                        skipped += 1
                    else:
                        out.append(c)
    return out


def cases(rng, tier):
    out = attrs_cases() + singles(tier) + members(tier) + pairs(tier) + counter_histories(rng, tier) + ovr_cases(tier)
    out += rk_cases(tier) + staged_cases(rng, tier) + reent_cases(rng, tier)
    out += prop_cases(rng, tier) + shared_cases(rng, tier) + awaitable_cases(rng, tier) + gen_cases(rng, tier) + bad_cases(rng, tier)
    out += random_cases(rng, 600 if tier == 'quick' else 30000)
    return out


def search(rng, tier, near):
    return random_cases(rng, 2200) + rand_staged(rng, 400) + rand_reent(rng, 400) + rand_gen(rng, 400)


# ------------------------------------------------------------------ generated programs

class ReprErr(Exception):
    pass


class StrErr(Exception):
    pass


class EqErr(Exception):
    pass


class NeErr(Exception):
    pass


class V:
    """argument / result objects: equality by class number, identity by object.  `bad`: which of the methods a wrapper may run on the
    object raise ('repr', 'str', 'eq', 'ne') — every object of a run is of this ONE class, so `a == b` / `a != b` runs the method of the
    left operand only.  The harness itself never formats or compares them (identities are looked up with `is`)."""

    def __init__(self, oid, cls, bad=()):
        self.oid, self.cls, self.bad = oid, cls, frozenset(bad)

    def __eq__(self, o):
        if 'eq' in self.bad:
            raise EqErr(self.oid)
        return isinstance(o, V) and o.cls == self.cls

    def __ne__(self, o):
        if 'ne' in self.bad:
            raise NeErr(self.oid)
        return not (isinstance(o, V) and o.cls == self.cls)

    def __hash__(self):
        return hash(self.cls)

    def __repr__(self):
        if 'repr' in self.bad:
            raise ReprErr(self.oid)
        return f'V{self.oid}'

    def __str__(self):
        if 'str' in self.bad:
            raise StrErr(self.oid)
        return f'V{self.oid}'


class BodyErr(Exception):
    pass


class BodyBase(BaseException):
    pass


class AwV(V):
    """a result object that can also be awaited (to something else)"""

    def __await__(self):
        if False:
            yield None
        return V(-self.oid, -self.oid)


async def _nap():
    return V(-1, -1)


def install_awaitables(H, loop, wkinds, first_id=100):
    """the script entries of kind reta / retf / rett denote awaitable objects: put them into the object table before any body runs"""
    made = []
    for i, k in enumerate(wkinds):
        oid = first_id + i
        if k == 'reta':
            H.table[oid] = AwV(oid, oid, H.bad.get(oid, ()))
        elif k == 'retf':
            f = loop.create_future()
            f.set_result(V(-oid, -oid))
            H.table[oid] = f
        elif k == 'rett':
            H.table[oid] = loop.create_task(_nap())
            made.append(H.table[oid])
    return made


def settle_awaitables(loop, made):
    for t in made:
        try:
            loop.run_until_complete(t)
        except BaseException:
            pass


class Runtime:
    """shared with every generated module as `H`"""

    def __init__(self):
        self.J = []
        self.inv = {'w': 0, 'o': 0}
        self.script = {'w': [], 'o': []}
        self.table = {}          # id -> object
        self.sentinel = V(999999, 999999)
        self.param = V(PARAM_ID, PARAM_CLS)
        self.top = None          # re-entrant programs: the callable under test (decorated or twin)
        self.plan = []           # … and the nested calls invocation i makes: [[(args, kwargs)…]…]
        self.announced = []      # call numbers count_calls printed (only read when the message still has that form)
        self.bad = {}            # identity -> which methods of that object raise
        self.pending = []        # asyncio tasks handed out as result objects, to be finished before the loop goes away
        self.yields = []         # generator programs: the objects the i-th generator yields: [[(id, cls)…]…]
        self.cb = lambda *a, **k: self.top(*a, **k)
        self.reset_objects()

    def reset_objects(self):
        self.table = {999999: self.sentinel, PARAM_ID: self.param}
        for i in (A, B, C3, D4, E5):
            self.table[i] = V(i, i, self.bad.get(i, ()))
        self.table[CB_ID] = self.cb
        self.table[THROW_EXC], self.table[THROW_BASE] = BodyErr(THROW_EXC), BodyBase(THROW_BASE)

    def oid(self, v):
        if v is None:
            return 0
        for k, o in self.table.items():
            if o is v:
                return k
        return -1

    def obj(self, entry):
        """script entry -> the object it denotes (created once per id)"""
        kind, i, extra = entry
        if i not in self.table:
            self.table[i] = V(i, extra, self.bad.get(i, ())) if kind == 'ret' else (BodyBase(i) if extra else BodyErr(i))
        return self.table[i]

    def run(self, callee, named, xpos, xkw):
        i = self.inv[callee]
        self.inv[callee] += 1
        self.J.append(['body', callee, i, sorted([KEY[n], self.oid(v)] for n, v in named), [self.oid(v) for v in xpos],
                       sorted([KEY.get(k, -1), self.oid(v)] for k, v in xkw.items())])
        sc = self.script[callee]
        if i >= len(sc):
            return self.sentinel
        o = self.obj(sc[i])
        if sc[i][0] == 'ret':
            return o
        raise o

    def enter(self, callee, named, xpos, xkw):
        """re-entrant bodies, first half: journal the invocation, hand out the nested calls it is to make"""
        i = self.inv[callee]
        self.inv[callee] += 1
        self.J.append(['body', callee, i, sorted([KEY[n], self.oid(v)] for n, v in named), [self.oid(v) for v in xpos],
                       sorted([KEY.get(k, -1), self.oid(v)] for k, v in xkw.items())])
        return i, (self.plan[i] if i < len(self.plan) else [])

    def gen_enter(self, callee, named, xpos, xkw):
        """generator bodies, at their first resumption: journal the invocation, hand out the objects to yield"""
        i, _ = self.enter(callee, named, xpos, xkw)
        ys = self.yields[i] if i < len(self.yields) else []
        return i, [self.obj(['ret', e[0], e[1]]) for e in ys]

    def acc(self, slot, named):
        """property accessors: which accessor runs, then the body"""
        self.J.append(['acc', slot])
        return self.run('w', named, (), {})

    def leave(self, callee, i):
        sc = self.script[callee]
        if i >= len(sc):
            return self.sentinel
        o = self.obj(sc[i])
        if sc[i][0] == 'ret':
            return o
        raise o


import re as _re
_ANNOUNCE = _re.compile(r'Count Calls: Call (\d+) of function')


class JournalWriter:
    def __init__(self, H):
        self.H = H

    def write(self, s):
        if s:
            self.H.J.append(['print'])
            m = _ANNOUNCE.search(s)
            if m:
                self.H.announced.append(int(m.group(1)))
        return len(s)

    def flush(self):
        pass


IMPORTS = ('from pedantic import trace, timer, count_calls, deprecated, trace_if_returns, does_same_as_function, rename_kwargs, Rename, '
           'mock, unimplemented, overrides, require_kwargs, trace_class, timer_class, pedantic, validate, Parameter, in_subprocess, retry\n'
           'from pedantic.decorators import safe_contextmanager, safe_async_contextmanager\n')


def deco_line(l):
    d = l['d']
    if d in ('trace', 'timer', 'count_calls', 'deprecated', 'require_kwargs', 'unimplemented'):
        return f'@{d}'
    if d in ('trace_if_returns', 'mock'):
        return f'@{d}(H.param)'
    if d == 'does_same_as_function':
        return '@does_same_as_function(other)'
    if d == 'rename_kwargs':
        return '@rename_kwargs(' + ', '.join(f'Rename({KEYNAME[f]!r}, {KEYNAME[t]!r})' for f, t in RENAME_SETS[l['renames']]) + ')'
    if d == 'overrides':
        return '@overrides(Base)'
    raise ValueError(d)


def fn_source(name, shape, flavour, callee, decorators, indent='', gen=False, doc='doc of target'):
    params, named, extras, _ = SHAPES[shape]
    lines = [indent + dl for dl in decorators]
    lines.append(f"{indent}{'async ' if flavour == 'async' else ''}def {name}({params}):")
    lines.append(f'{indent}    """{doc}"""')
    if gen:
        # a generator function (async generator function for `async def`): yields what the script says and notes down everything it receives
        lines += [indent + l for l in (
            f"    _i, _ys = H.gen_enter({callee!r}, {named}, {extras})",
            "    for _y in _ys:",
            "        try:",
            "            _got = yield _y",
            "        except GeneratorExit:",
            "            H.J.append(['gen', _i, 'closed'])",
            "            raise",
            "        except BaseException as _e:",
            "            H.J.append(['gen', _i, 'thrown', H.oid(_e)])",
            "            if not isinstance(_e, Exception):",
            "                raise",
            "            continue",
            "        H.J.append(['gen', _i, 'got', H.oid(_got)])",
            f"    {'' if flavour == 'async' else 'return '}H.leave({callee!r}, _i)")]
    else:
        lines.append(f"{indent}    return H.run({callee!r}, {named}, {extras})")
    return '\n'.join(lines) + '\n'


def program_source(x):
    shape, flavour = x['shape'], x['flavour']
    src = IMPORTS
    m = x['member']
    gen = bool(x.get('gen'))
    if m:
        kind = m['kind']
        pre = {'method': [], 'static': ['@staticmethod'], 'classm': ['@classmethod'], 'prop': ['@property']}[kind]
        src += 'class KT:\n' + fn_source('target', shape, flavour, 'w', pre, '    ', gen=gen)
        src += f"@{m['cdeco']}\nclass K:\n" + fn_source('target', shape, flavour, 'w', pre, '    ', gen=gen)
        return src
    first = next((l for l in x['layers'] if l['d'] == 'overrides'), None)
    src += base_source(*base_of(first)) if first else base_source('plain', 'target')
    src += fn_source('other', shape, x['other_flavour'], 'o', [])
    decos = [deco_line(l) for l in x['layers']]
    if shape == 'method':
        src += 'class KT(Base):\n' + fn_source('target', shape, flavour, 'w', [], '    ', gen=gen)
        src += 'class K(Base):\n' + fn_source('target', shape, flavour, 'w', decos, '    ', gen=gen)
    else:
        src += fn_source('twin', shape, flavour, 'w', [], gen=gen)
        src += fn_source('target', shape, flavour, 'w', decos, gen=gen)
    return src


def rk_source(x):
    """require_kwargs (alone or with one more decorator) on a callable in one of the forms of RK_FORMS, next to an undecorated twin"""
    form, shape, flavour = x['rk'], x['shape'], x['flavour']
    decos = [deco_line(l) for l in x['layers']]
    src = IMPORTS
    if form == 'plain':
        return src + fn_source('twin', shape, flavour, 'w', []) + fn_source('target', shape, flavour, 'w', decos)
    pre = {'method': [], 'static_below': ['@staticmethod'], 'static_above': ['@staticmethod'], 'classm_below': ['@classmethod'],
           'classm_above': ['@classmethod'], 'bound': [], 'bound_classm': ['@classmethod']}[form]
    src += 'class KT:\n' + fn_source('target', shape, flavour, 'w', pre, '    ')
    if form in ('bound', 'bound_classm'):
        # the decorator is CALLED with a bound method object
        src += 'class K:\n' + fn_source('target', shape, flavour, 'w', pre, '    ')
        src += 'TWIN_INST = KT()\nINST = K()\n'
        src += 'CHECKED = ' + ''.join(l['d'] + '(' for l in x['layers']) + ('INST.target' if form == 'bound' else 'K.target') + ')' * len(x['layers']) + '\n'
        return src
    lines = decos + pre if form.endswith('_above') else pre + decos
    return src + 'class K:\n' + fn_source('target', shape, flavour, 'w', lines, '    ')


def staged_source(x):
    """the raw function, its twin, and one single-decorator function per layer of every stage (applied by the harness between the calls)"""
    shape, flavour = x['shape'], x['flavour']
    src = IMPORTS + fn_source('other', shape, x['other_flavour'], 'o', []) + fn_source('twin', shape, flavour, 'w', []) + fn_source('target', shape, flavour, 'w', [])
    if x['preset'] is not None:
        src += f"target.num_calls = {x['preset']}\ntarget.marker = H.param\n"
    src += 'STAGES = [\n'
    for st in x['staged']:
        # innermost first: the order of application
        src += '    [' + ', '.join('lambda f: ' + deco_line(l)[1:] + '(f)' for l in reversed(st['layers'])) + '],\n'
    return src + ']\n'


def reent_source(x):
    """the function under test and its twin; both re-enter — the callable they are reached through — as the harness' plan says"""
    r, flavour = x['reent'], x['flavour']
    params, named, extras, _ = SHAPES['re']
    a, aw = ('async ', 'await ') if flavour == 'async' else ('', '')
    src = IMPORTS + fn_source('other', 're', x['other_flavour'], 'o', [])

    def fn(name, decos):
        again = 'c' if r['mode'] == 'callback' else name        # the callback handed in / the module-level name (the decorated callable)
        return ('\n'.join(decos + [f'{a}def {name}({params}):',
                                   '    """doc of target"""',
                                   f"    _i, _plan = H.enter('w', {named}, {extras})",
                                   '    for _a, _k in _plan:',
                                   '        try:',
                                   f'            {aw}{again}(*_a, **_k)',
                                   '        except BaseException:',
                                   '            pass',
                                   "    return H.leave('w', _i)"]) + '\n')
    return src + fn('twin', []) + fn('target', [deco_line(l) for l in x['layers']])


def ovr_source(o, flavour):
    a = 'async ' if flavour == 'async' else ''
    return (IMPORTS + base_source(o['base'], o['member']) +
            'def _keep(f):\n    H.kept = f\n    return f\n'
            f"class K(Base):\n    @overrides(Base)\n    @_keep\n    {a}def {o['fname']}(self, *args, **kwargs):\n"
            '        """doc of target"""\n        return None\n')


def attrs_source(d, flavour):
    a = 'async ' if flavour == 'async' else ''
    if d == 'pedantic':
        return IMPORTS + f'@pedantic\n{a}def target(a: int, b: int) -> int:\n    """doc of target"""\n    return a\n'
    if d == 'validate':
        return IMPORTS + f"@validate(Parameter(name='a'), Parameter(name='b'))\n{a}def target(a, b):\n    \"\"\"doc of target\"\"\"\n    return a\n"
    if d == 'in_subprocess':
        return IMPORTS + f'@in_subprocess\n{a}def target(a, b):\n    """doc of target"""\n    return a\n'
    if d == 'retry':
        return IMPORTS + f'@retry(attempts=2)\n{a}def target(a, b):\n    """doc of target"""\n    return a\n'
    if d == 'safe_contextmanager':
        return IMPORTS + '@safe_contextmanager\ndef target(a, b):\n    """doc of target"""\n    yield a\n'
    if d == 'safe_async_contextmanager':
        return IMPORTS + '@safe_async_contextmanager\nasync def target(a, b):\n    """doc of target"""\n    yield a\n'
    l = layer(d)
    return IMPORTS + 'class Base:\n    def target(self):\n        pass\ndef other(a, b):\n    return a\n' + deco_line(l) + \
        f'\n{a}def target(a, b):\n    """doc of target"""\n    return a\n'


class Programs:
    def __init__(self):
        self.dir = tempfile.mkdtemp(prefix='pedverif_c18_')
        self.H = Runtime()
        self.cache = {}
        self.n = 0

    def load(self, src):
        """one file per distinct source; the module is executed afresh for every case (decorator state such as num_calls starts at 0)"""
        if src not in self.cache:
            self.n += 1
            name = f'c18prog_{os.getpid()}_{self.n}'
            path = os.path.join(self.dir, name + '.py')
            with open(path, 'w') as f:
                f.write(src)
            self.cache[src] = (name, path)
        name, path = self.cache[src]
        spec = importlib.util.spec_from_file_location(name, path)
        mod = importlib.util.module_from_spec(spec)
        mod.H = self.H
        exc = None
        try:
            spec.loader.exec_module(mod)
        except BaseException as e:      # decoration-time failure
            exc = type(e).__name__
        return mod, name, exc

    def close(self):
        shutil.rmtree(self.dir, ignore_errors=True)


async def _drive(x):
    return await x


def canon_result(H, r):
    if r is None:
        return ['none']
    i = H.oid(r)
    if i < 0 and inspect.iscoroutine(r):
        r.close()
        return ['coro']
    return ['obj', i] if i >= 0 else ['obj', -1, type(r).__name__]


def canon_exc(H, e):
    i = H.oid(e)
    return ['exc', 'body', i] if i >= 0 else ['exc', 'lib', type(e).__name__]


def run_calls(H, loop, fn_for_call, x, counters_of, reset=True):
    """one history on one callable; returns the per-call observations"""
    if reset:
        H.J = []
        H.inv = {'w': 0, 'o': 0}
    out = []
    for s in x['styles']:
        pos, kw = STYLES[s]
        args = [H.table[i] for i in pos]
        kwargs = {KEYNAME[k]: H.table[v] for k, v in kw}
        mark = len(H.J)
        with warnings.catch_warnings():
            warnings.simplefilter(x['mode'])
            warnings.filterwarnings('ignore', message='coroutine .* was never awaited', category=RuntimeWarning)

            def hook(message, category, filename, lineno, file=None, line=None, H=H):
                if not (issubclass(category, RuntimeWarning) and 'never awaited' in str(message)):
                    H.J.append(['warn', category.__name__])
            warnings.showwarning = hook
            with contextlib.redirect_stdout(JournalWriter(H)):
                try:
                    r = fn_for_call(args, kwargs)
                    if inspect.isawaitable(r) and H.oid(r) < 0:     # what a coroutine function hands out; a RESULT object that is awaitable stays what it is
                        r = loop.run_until_complete(_drive(r))
                    res = canon_result(H, r)
                    r = None
                except BaseException as e:
                    res = canon_exc(H, e)
                    e = None
        out.append({'evs': H.J[mark:], 'res': res, 'counters': counters_of()})
    return out


def run_rk(H, loop, x, mod, name, exc):
    """require_kwargs forms: the decorated callable and its twin, reached through the instance / the class / the decorated bound method"""
    form, access = x['rk'], x['access']
    res = {'deco': exc}
    if exc and not hasattr(mod, 'twin' if form == 'plain' else 'KT'):
        res['twin'] = None
        return res
    if form == 'plain':
        twin_call = lambda a, k: mod.twin(*a, **k)
    else:
        kt = mod.KT
        ti = mod.TWIN_INST if form in ('bound', 'bound_classm') else kt()
        H.table[SELF_ID], H.table[CLS_ID] = ti, kt
        twin_call = (lambda a, k: kt.target(*a, **k)) if (access == 'cls' or form == 'bound_classm') else (lambda a, k: ti.target(*a, **k))
    res['twin'] = run_calls(H, loop, twin_call, x, lambda: [])
    if exc:
        return res
    if form == 'plain':
        f0, qual = mod.target, 'target'
        call = lambda a, k: mod.target(*a, **k)
    elif form in ('bound', 'bound_classm'):
        H.table[SELF_ID], H.table[CLS_ID] = mod.INST, mod.K
        f0, qual = mod.CHECKED, 'K.target'
        call = lambda a, k: mod.CHECKED(*a, **k)
    else:
        kc = mod.K
        inst = kc()
        H.table[SELF_ID], H.table[CLS_ID] = inst, kc
        f0, qual = kc.__dict__['target'], 'K.target'
        if isinstance(f0, (staticmethod, classmethod)):
            f0 = f0.__func__
        call = (lambda a, k: kc.target(*a, **k)) if access == 'cls' else (lambda a, k: inst.target(*a, **k))
    chain = [f0]
    while hasattr(chain[-1], '__wrapped__') and len(chain) < 10:
        chain.append(chain[-1].__wrapped__)
    wrapping = [l['d'] for l in x['layers']]

    def counters_of():
        return [getattr(chain[j], 'num_calls', None) if j < len(chain) else None for j, d in enumerate(wrapping) if d == 'count_calls']
    res['attrs'] = [getattr(f0, '__name__', None) == 'target', getattr(f0, '__qualname__', None) == qual,
                    getattr(f0, '__doc__', None) == 'doc of target', getattr(f0, '__module__', None) == name]
    res['coro'] = inspect.iscoroutinefunction(f0)
    res['calls'] = run_calls(H, loop, call, x, counters_of)
    return res


def run_ops(H, loop, top, x, counters_of):
    """one re-entrant history through `top`; per operation: journal, result, counters"""
    r = x['reent']
    H.J = []
    H.inv = {'w': 0, 'o': 0}
    H.announced = []
    H.top = top
    H.plan = [[([H.table[i] for i in STYLES[st][0]], {KEYNAME[k]: H.table[v] for k, v in STYLES[st][1]}) for st in p] for p in r['plan']]
    handles, out = [], []
    for op in r['ops']:
        mark = len(H.J)
        with warnings.catch_warnings():
            warnings.simplefilter(x['mode'])
            warnings.filterwarnings('ignore', message='coroutine .* was never awaited', category=RuntimeWarning)

            def hook(message, category, filename, lineno, file=None, line=None, H=H):
                if not (issubclass(category, RuntimeWarning) and 'never awaited' in str(message)):
                    H.J.append(['warn', category.__name__])
            warnings.showwarning = hook
            with contextlib.redirect_stdout(JournalWriter(H)):
                try:
                    if op[0] == 'await':
                        h = handles[op[1]] if op[1] < len(handles) else None
                        if h is None:
                            raise TypeError('nothing to await')
                        handles[op[1]] = None
                        v = loop.run_until_complete(_drive(h))
                    else:
                        pos, kw = STYLES[op[1]]
                        v = top(*[H.table[i] for i in pos], **{KEYNAME[k]: H.table[w] for k, w in kw})
                        if op[0] == 'call':
                            handles.append(v if inspect.isawaitable(v) else None)
                            if inspect.isawaitable(v):
                                v = _PENDING
                        elif inspect.isawaitable(v):
                            v = loop.run_until_complete(_drive(v))
                    res = ['coro'] if v is _PENDING else canon_result(H, v)
                    v = None
                except BaseException as e:
                    if op[0] == 'call':
                        handles.append(None)
                    res = canon_exc(H, e)
                    e = None
        out.append({'evs': H.J[mark:], 'res': res, 'counters': counters_of()})
    for h in handles:
        if h is not None:
            h.close()
    return out, list(H.announced)


_PENDING = object()


def run_reent(progs, H, loop, x):
    H.bad = {int(i): ks for i, ks in (x.get('bad') or {}).items()}
    H.reset_objects()
    wscript = outcome_script(x['wkinds'])
    H.script = {'w': wscript, 'o': other_script(x['okinds'], wscript)}
    for e in H.script['w'] + H.script['o']:
        H.obj(e)
    mod, name, exc = progs.load(reent_source(x))
    if exc:
        return {'deco': exc, 'twin': None}
    res = {'deco': None}
    res['twin'], _ = run_ops(H, loop, mod.twin, x, lambda: [])
    f0 = mod.target
    chain = [f0]
    while hasattr(chain[-1], '__wrapped__') and len(chain) < 10:
        chain.append(chain[-1].__wrapped__)
    wrapping = [l['d'] for l in x['layers'] if l['d'] != 'overrides']

    def counters_of():
        return [getattr(chain[j], 'num_calls', None) if j < len(chain) else None for j, d in enumerate(wrapping) if d == 'count_calls']
    res['attrs'] = [getattr(f0, '__name__', None) == 'target', getattr(f0, '__qualname__', None) == 'target',
                    getattr(f0, '__doc__', None) == 'doc of target', getattr(f0, '__module__', None) == name]
    res['coro'] = inspect.iscoroutinefunction(f0)
    res['ops'], res['announced'] = run_ops(H, loop, mod.target, x, counters_of)
    H.top = None
    return res


def run_staged(progs, H, loop, x):
    """decorate, call, decorate the result again, call, …; after every call the `num_calls` entry of every wrapper built so far"""
    H.bad = {}
    H.reset_objects()
    wscript = outcome_script(x['wkinds'])
    H.script = {'w': wscript, 'o': other_script(x['okinds'], wscript)}
    for e in H.script['w'] + H.script['o']:
        H.obj(e)
    mod, name, exc = progs.load(staged_source(x))
    if exc:
        return {'deco': exc, 'twin': None}
    all_styles = [s for st in x['staged'] for s in st['styles']]
    res = {'deco': None, 'twin': run_calls(H, loop, lambda a, k: mod.twin(*a, **k), dict(x, styles=all_styles), lambda: [])}
    H.J = []
    H.inv = {'w': 0, 'o': 0}
    f = mod.target
    wrappers = []           # outermost first
    stages = []
    for st, appliers in zip(x['staged'], mod.STAGES):
        try:
            for ap in appliers:
                f = ap(f)
                wrappers.insert(0, f)
        except BaseException as e:
            return {'deco': type(e).__name__, 'twin': res['twin']}
        top = f

        def attrs_of():
            return [v if (v is None or type(v) is int) else 'other' for v in (w.__dict__.get('num_calls') for w in wrappers)]
        calls = run_calls_keep(H, loop, lambda a, k: top(*a, **k), dict(x, styles=st['styles']), attrs_of)
        stages.append({'calls': calls, 'meta': [getattr(top, '__name__', None) == 'target', getattr(top, '__qualname__', None) == 'target',
                                                 getattr(top, '__doc__', None) == 'doc of target', getattr(top, '__module__', None) == name],
                       'coro': inspect.iscoroutinefunction(top),
                       'marker': (getattr(top, 'marker', None) is H.param) if x['preset'] is not None else None})
    res['stages'] = stages
    return res


def run_calls_keep(H, loop, fn_for_call, x, counters_of):
    """run_calls without resetting the journal / the invocation counters (the history goes on across stages)"""
    return run_calls(H, loop, fn_for_call, x, counters_of, reset=False)


def run_impl(cases):
    progs = Programs()
    H = progs.H
    loop = asyncio.new_event_loop()
    warnings.filterwarnings('ignore', message='coroutine .* was never awaited', category=RuntimeWarning)
    out = []
    try:
        for case in cases:
            x = case['x']
            settle_awaitables(loop, H.pending)
            H.pending = []
            if 'attrs' in x:
                mod, name, exc = progs.load(attrs_source(x['attrs'], x['flavour']))
                if exc:
                    out.append({'deco': exc})
                    continue
                f = mod.target
                out.append({'deco': None, 'attrs': [f.__name__ == 'target', f.__qualname__ == 'target', f.__doc__ == 'doc of target', f.__module__ == name],
                            'coro': inspect.iscoroutinefunction(f)})
                continue
            if 'ovr' in x:
                o = x['ovr']
                H.kept = None
                mod, name, exc = progs.load(ovr_source(o, x['flavour']))
                res = {'deco': exc, 'obs': class_obs(mod.Base, o['fname']) if hasattr(mod, 'Base') else None}
                if exc is None:
                    f0 = mod.K.__dict__.get(o['fname'])
                    res['same'] = f0 is H.kept and f0 is not None
                    res['coro'] = inspect.iscoroutinefunction(f0)
                H.kept = None
                out.append(res)
                continue
            if 'staged' in x:
                out.append(run_staged(progs, H, loop, x))
                continue
            if 'reent' in x:
                out.append(run_reent(progs, H, loop, x))
                continue
            if 'gen' in x:
                out.append(run_gen(progs, H, loop, x))
                continue
            if 'prop' in x:
                out.append(run_prop(progs, H, loop, x))
                continue
            if 'shared' in x:
                out.append(run_shared(progs, H, loop, x))
                continue
            H.bad = {int(i): ks for i, ks in (x.get('bad') or {}).items()}
            H.reset_objects()
            wscript = outcome_script(x['wkinds'])
            H.script = {'w': wscript, 'o': other_script(x['okinds'], wscript)}
            H.pending = install_awaitables(H, loop, x['wkinds'])
            for e in H.script['w'] + H.script['o']:
                H.obj(e)
            mod, name, exc = progs.load(rk_source(x) if 'rk' in x else program_source(x))
            shape, m = x['shape'], x['member']
            if 'rk' in x:
                out.append(run_rk(H, loop, x, mod, name, exc))
                continue
            res = {'deco': exc}
            if any(l['d'] == 'overrides' for l in x['layers']) and hasattr(mod, 'Base'):
                res['obs'] = class_obs(mod.Base, 'target')
            if exc and not hasattr(mod, 'KT' if (m or shape == 'method') else 'twin'):
                # not even the undecorated twin exists: the program (or the library) failed to import
                res['twin'] = None
                out.append(res)
                continue
            # ---- the undecorated twin
            if m or shape == 'method':
                kt = mod.KT
                twin_inst = kt()
                H.table[SELF_ID], H.table[CLS_ID] = twin_inst, kt
                if m and m['kind'] == 'prop':
                    twin_call = lambda a, k: twin_inst.target
                elif m and m['access'] == 'cls':
                    twin_call = lambda a, k: kt.target(*a, **k)
                else:
                    twin_call = lambda a, k: twin_inst.target(*a, **k)
            else:
                twin_call = lambda a, k: mod.twin(*a, **k)
            res['twin'] = run_calls(H, loop, twin_call, x, lambda: [])
            if exc:
                out.append(res)
                continue
            # ---- the decorated function
            if m or shape == 'method':
                kc = mod.K
                inst = kc()
                H.table[SELF_ID], H.table[CLS_ID] = inst, kc
                f0 = kc.__dict__['target']
                if isinstance(f0, property):
                    f0 = f0.fget
                if isinstance(f0, (staticmethod, classmethod)):
                    f0 = f0.__func__
                if m and m['kind'] == 'prop':
                    call = lambda a, k: inst.target
                elif m and m['access'] == 'cls':
                    call = lambda a, k: kc.target(*a, **k)
                else:
                    call = lambda a, k: inst.target(*a, **k)
                qual = 'K.target'
            else:
                f0 = mod.target
                call = lambda a, k: mod.target(*a, **k)
                qual = 'target'
            chain = [f0]
            while hasattr(chain[-1], '__wrapped__') and len(chain) < 10:
                chain.append(chain[-1].__wrapped__)
            wrapping = [l['d'] for l in x['layers'] if l['d'] != 'overrides']

            def counters_of():
                vals = []
                for j, d in enumerate(wrapping):
                    if d == 'count_calls':
                        vals.append(getattr(chain[j], 'num_calls', None) if j < len(chain) else None)
                return vals
            res['attrs'] = [getattr(f0, '__name__', None) == 'target', getattr(f0, '__qualname__', None) == qual,
                            getattr(f0, '__doc__', None) == 'doc of target', getattr(f0, '__module__', None) == name]
            res['coro'] = inspect.iscoroutinefunction(f0)
            res['calls'] = run_calls(H, loop, call, x, counters_of)
            out.append(res)
    finally:
        settle_awaitables(loop, H.pending)
        H.pending = []
        loop.close()
        progs.close()
    return out


# ------------------------------------------------------------------ generator functions / async generator functions as decorated callables

GEN_OPS = {
    'iter': [['next']] * 4,                                                  # plain iteration, to the end and beyond
    'send': [['next'], ['send', A], ['send', B], ['next']],
    'send_first': [['send', A], ['next'], ['send', B], ['send', C3]],        # a value into a just-started generator: TypeError, then on
    'throw_mid': [['next'], ['throw', THROW_EXC, False], ['send', A], ['next']],
    'throw_base': [['next'], ['throw', THROW_BASE, True], ['next']],
    'throw_first': [['throw', THROW_EXC, False], ['next']],
    'throw_done': [['next'], ['next'], ['next'], ['throw', THROW_EXC, False], ['next']],
    'close_mid': [['next'], ['close'], ['next'], ['send', A]],
    'close_first': [['close'], ['next']],
    'close_done': [['next'], ['next'], ['next'], ['close']],
    'mixed': [['next'], ['send', A], ['throw', THROW_EXC, False], ['send', B], ['close'], ['throw', THROW_EXC, False]],
    'none': [],                                                              # the generator object is never driven
}
GEN_TRANSPARENT = ['trace', 'timer', 'count_calls', 'deprecated', 'trace_if_returns', 'rename_kwargs', 'require_kwargs']
GEN_STYLE = {'pos': 'K2', 'kw': 'K2', 'star': 'K2', 'method': 'K2', 'mixed': 'K2', 'm_method': 'P2', 'm_method_star': 'M'}


def gen_yields(n_calls, per):
    """the objects the i-th generator yields: `per[i % len(per)]` fresh objects each"""
    out, nxt = [], 500
    for i in range(n_calls + 2):
        k = per[i % len(per)]
        out.append([[nxt + j, nxt + j] for j in range(k)])
        nxt += k
    return out


def mk_gen(layers, flavour, shape, calls, wkinds, per=(2,), drive='direct', member=None, mode='ignore', bad=None):
    """calls: [(call style, name of an operation list | explicit operation list)]; flavour 'async' = async generator function"""
    x = {'gen': {'ops': [list(GEN_OPS[o]) if isinstance(o, str) else [list(op) for op in o] for _, o in calls], 'yields': gen_yields(len(calls), list(per)),
                 'drive': drive if flavour == 'sync' else 'direct'},
         'layers': [layer(d) if isinstance(d, str) else d for d in layers], 'flavour': flavour, 'shape': shape, 'styles': [st for st, _ in calls],
         'wkinds': list(wkinds), 'okinds': ['equal'] * (2 * len(calls) + 2), 'other_flavour': 'sync', 'member': member, 'mode': mode}
    if bad:
        x['bad'] = {str(i): list(ks) for i, ks in bad.items()}
    c = wire(x)
    c['kind'] = 'gen'
    c['body'] = {'async': flavour == 'async', 'sig': c['body']['sig'], 'script': c['body']['script'], 'yields': x['gen']['yields']}
    for cj, ops in zip(c['calls'], x['gen']['ops']):
        cj['ops'] = ops
    return {'m': 'utility', 'c': c, 'x': x}


def gen_cases(rng, tier):
    out = []
    for flavour in ('sync', 'async'):
        drives = ('direct', 'yieldfrom') if flavour == 'sync' else ('direct',)
        for d in UTIL:
            shapes = ['method'] if d == 'overrides' else ['pos', 'star']
            for shape in shapes:
                for on, _ in GEN_OPS.items():
                    for drive in drives:
                        if shape == 'star' and (on not in ('send', 'mixed', 'throw_mid') or drive != 'direct'):
                            continue
                        for fin in ('ret', 'exc', 'base'):
                            if fin == 'base' and on not in ('iter', 'send', 'throw_mid'):
                                continue
                            # two calls: two generator objects, the second driven differently
                            out.append(mk_gen([d], flavour, shape, [(GEN_STYLE[shape], on), (GEN_STYLE[shape], 'send')], [fin, 'ret', 'ret', 'ret'], drive=drive))
            # generators that yield nothing / once / three times; a call that does not bind; a positional call
            for per in ((0,), (1,), (3,), (2, 0)):
                out.append(mk_gen([d], flavour, 'method' if d == 'overrides' else 'pos', [('K2', 'send'), ('K1', 'iter'), ('P2', 'mixed')], ['ret', 'exc', 'ret', 'ret'], per=per))
        # all ordered pairs of the transparent decorators
        k = 0
        for d1 in GEN_TRANSPARENT:
            for d2 in GEN_TRANSPARENT:
                k += 1
                on = list(GEN_OPS)[k % len(GEN_OPS)]
                out.append(mk_gen([d1, d2], flavour, ('pos', 'kw', 'star')[k % 3], [('K2', on), ('K2', 'mixed')], ['ret', 'exc', 'ret', 'ret'],
                                  drive=drives[k % len(drives)], mode=('ignore', 'always')[k % 2]))
        # methods of a class under trace_class / timer_class
        for cdeco in ('trace_class', 'timer_class'):
            for shape in ('m_method', 'm_method_star'):
                for on in GEN_OPS:
                    for drive in drives:
                        out.append(mk_gen([], flavour, shape, [(GEN_STYLE[shape], on), (GEN_STYLE[shape], 'send')], ['ret', 'exc', 'ret'], drive=drive,
                                          member={'kind': 'method', 'access': 'instance', 'cdeco': cdeco}))
    return out + rand_gen(rng, 150 if tier == 'quick' else 6000)


def rand_gen(rng, n):
    out = []
    vals = [A, B, C3, D4, E5]
    for _ in range(n):
        flavour = rng.choice(['sync', 'async'])
        shape = rng.choice(['pos', 'kw', 'star', 'method', 'mixed'])
        pool = [d for d in UTIL if d != 'overrides' or shape == 'method']
        names = [rng.choice(pool if rng.random() < 0.3 else GEN_TRANSPARENT) for _ in range(rng.choice([1, 2, 2, 3]))]
        calls = []
        for _ in range(rng.choice([1, 2, 3])):
            ops = []
            for _ in range(rng.randint(0, 7)):
                r = rng.random()
                ops.append(['next'] if r < 0.35 else ['send', rng.choice(vals)] if r < 0.7 else ['throw', THROW_EXC, False] if r < 0.82
                           else ['throw', THROW_BASE, True] if r < 0.88 else ['close'])
            calls.append((rng.choice(SHAPE_STYLES[shape] + [KW_STYLE[shape]] * 4), ops))
        out.append(mk_gen([layer(d, renames=rng.choice(list(RENAME_SETS))) for d in names], flavour, shape, calls,
                          [rng.choice(OUTCOMES) for _ in range(len(calls) + 2)], per=tuple(rng.choice([0, 1, 2, 3]) for _ in range(2)),
                          drive=rng.choice(['direct', 'yieldfrom']), mode=rng.choice(['ignore', 'always'])))
    return out


def _delegate(g):
    """`yield from`: forwards next / send / throw / close and hands the return value on"""
    r = yield from g
    return r


def drive_gen(H, loop, g, ops, how):
    """drive a generator / async generator object; what every operation shows"""
    obs = []
    is_async = inspect.isasyncgen(g)
    target = _delegate(g) if (how == 'yieldfrom' and not is_async) else g
    for op in ops:
        try:
            if is_async:
                if op[0] == 'next':
                    v = loop.run_until_complete(target.__anext__())
                elif op[0] == 'send':
                    v = loop.run_until_complete(target.asend(H.table[op[1]] if op[1] else None))
                elif op[0] == 'throw':
                    v = loop.run_until_complete(target.athrow(H.table[op[1]]))
                    if v is None:
                        obs.append(['nothing'])
                        continue
                else:
                    loop.run_until_complete(target.aclose())
                    obs.append(['closed'])
                    continue
            else:
                if op[0] == 'next':
                    v = next(target)
                elif op[0] == 'send':
                    v = target.send(H.table[op[1]] if op[1] else None)
                elif op[0] == 'throw':
                    v = target.throw(H.table[op[1]])
                else:
                    target.close()
                    obs.append(['closed'])
                    continue
            obs.append(['yield', H.oid(v)])
        except (StopIteration, StopAsyncIteration) as st:
            obs.append(['stop', H.oid(getattr(st, 'value', None))])
        except BaseException as e:
            obs.append(canon_exc(H, e))
            e = None
    return obs, target


def run_gen_calls(H, loop, fn_for_call, x, counters_of, code):
    """one history on a generator function: per call the journal of the call and of the drive, the kind of result, what every operation shows"""
    H.J = []
    H.inv = {'w': 0, 'o': 0}
    out, leftovers = [], []
    for s, ops in zip(x['styles'], x['gen']['ops']):
        pos, kw = STYLES[s]
        args = [H.table[i] for i in pos]
        kwargs = {KEYNAME[k]: H.table[v] for k, v in kw}
        mark = len(H.J)
        obs = []
        with warnings.catch_warnings():
            warnings.simplefilter(x['mode'])
            warnings.filterwarnings('ignore', message='coroutine .* was never awaited', category=RuntimeWarning)

            def hook(message, category, filename, lineno, file=None, line=None, H=H):
                if not (issubclass(category, RuntimeWarning) and 'never awaited' in str(message)):
                    H.J.append(['warn', category.__name__])
            warnings.showwarning = hook
            with contextlib.redirect_stdout(JournalWriter(H)):
                try:
                    r = fn_for_call(args, kwargs)
                    if inspect.isgenerator(r) or inspect.isasyncgen(r):
                        own = (r.gi_code if inspect.isgenerator(r) else r.ag_code) is code
                        if inspect.isasyncgen(r) != (x['flavour'] == 'async'):
                            own = False
                        # the generator object the decorated function's own body made — or some other generator
                        res = ['gen'] if own else ['gen', 'foreign']
                        obs, target = drive_gen(H, loop, r, ops, x['gen']['drive'])
                        leftovers += [target, r]
                    else:
                        if inspect.isawaitable(r) and H.oid(r) < 0:
                            r = loop.run_until_complete(_drive(r))
                        res = canon_result(H, r)
                    r = None
                except BaseException as e:
                    res = canon_exc(H, e)
                    e = None
        out.append({'evs': H.J[mark:], 'res': res, 'obs': obs, 'counters': counters_of()})
    keep = len(H.J)
    for g in leftovers:          # finish what is still suspended, outside the journal
        try:
            if inspect.isasyncgen(g):
                loop.run_until_complete(g.aclose())
            else:
                g.close()
        except BaseException:
            pass
    del H.J[keep:]
    return out


def run_gen(progs, H, loop, x):
    H.bad = {int(i): ks for i, ks in (x.get('bad') or {}).items()}
    H.reset_objects()
    wscript = outcome_script(x['wkinds'])
    H.script = {'w': wscript, 'o': other_script(x['okinds'], wscript)}
    H.yields = x['gen']['yields']
    for e in H.script['w'] + H.script['o']:
        H.obj(e)
    mod, name, exc = progs.load(program_source(x))
    shape, m = x['shape'], x['member']
    res = {'deco': exc}
    in_class = bool(m) or shape == 'method'
    if exc and not hasattr(mod, 'KT' if in_class else 'twin'):
        res['twin'] = None
        return res
    if in_class:
        kt = mod.KT
        twin_inst = kt()
        H.table[SELF_ID], H.table[CLS_ID] = twin_inst, kt
        twin_call = lambda a, k: twin_inst.target(*a, **k)
        twin_code = kt.__dict__['target'].__code__
    else:
        twin_call = lambda a, k: mod.twin(*a, **k)
        twin_code = mod.twin.__code__
    res['twin'] = run_gen_calls(H, loop, twin_call, x, lambda: [], twin_code)
    if exc:
        return res
    if in_class:
        kc = mod.K
        inst = kc()
        H.table[SELF_ID], H.table[CLS_ID] = inst, kc
        f0 = kc.__dict__['target']
        call = lambda a, k: inst.target(*a, **k)
        qual = 'K.target'
    else:
        f0 = mod.target
        call = lambda a, k: mod.target(*a, **k)
        qual = 'target'
    chain = [f0]
    while hasattr(chain[-1], '__wrapped__') and len(chain) < 10:
        chain.append(chain[-1].__wrapped__)
    wrapping = [l['d'] for l in x['layers'] if l['d'] != 'overrides']

    def counters_of():
        return [getattr(chain[j], 'num_calls', None) if j < len(chain) else None for j, d in enumerate(wrapping) if d == 'count_calls']
    res['attrs'] = [getattr(f0, '__name__', None) == 'target', getattr(f0, '__qualname__', None) == qual,
                    getattr(f0, '__doc__', None) == 'doc of target', getattr(f0, '__module__', None) == name]
    res['coro'] = inspect.iscoroutinefunction(f0)
    res['calls'] = run_gen_calls(H, loop, call, x, counters_of, getattr(chain[-1], '__code__', None))
    H.yields = []
    return res


# ------------------------------------------------------------------ property members with gaps in their accessors (trace_class / timer_class)

PROP_OPS = {'get': [['get']], 'set': [['set', A]], 'del': [['del']], 'all': [['get'], ['set', A], ['del'], ['get']],
            'rev': [['del'], ['set', B], ['get'], ['set', A], ['del']]}


def mk_prop(cdeco, acc, ops, wkinds, bad=None):
    x = {'prop': {'cdeco': cdeco, 'acc': [bool(a) for a in acc], 'ops': [list(o) for o in ops]}, 'wkinds': list(wkinds), 'flavour': 'sync', 'mode': 'ignore'}
    if bad:
        x['bad'] = {str(i): list(ks) for i, ks in bad.items()}
    c = {'kind': 'prop', 'cdeco': cdeco, 'params': {'param': [PARAM_ID, PARAM_CLS], 'renames': [], 'baseHas': True, 'guard': NO_GUARD},
         'acc': x['prop']['acc'], 'script': outcome_script(x['wkinds']), 'self': SELF_ID, 'ops': x['prop']['ops'], 'traits': traits_wire(x.get('bad'))}
    return {'m': 'utility', 'c': c, 'x': x}


def prop_cases(rng, tier):
    """every subset of {getter, setter, deleter} x every operation (alone and in two histories) x body outcomes — a finite space, enumerated"""
    out = []
    for cdeco in ('trace_class', 'timer_class'):
        for acc in itertools.product((True, False), repeat=3):
            for on, ops in PROP_OPS.items():
                for wk in (('ret', 'exc', 'base') if len(ops) == 1 else ('ret',)):
                    out.append(mk_prop(cdeco, acc, ops, [wk] + ['ret', 'exc', 'ret', 'base', 'ret']))
    return out


def prop_source(x):
    pr = x['prop']
    g, st, dl = pr['acc']

    def body(ind):
        src = ''
        if g:
            src += f'{ind}@property\n{ind}def target(self):\n{ind}    """doc of target"""\n{ind}    return H.acc(\'fget\', [(\'self\', self)])\n'
        else:
            src += f'{ind}target = property()\n'
        if st:
            src += f'{ind}@target.setter\n{ind}def target(self, a):\n{ind}    return H.acc(\'fset\', [(\'self\', self), (\'a\', a)])\n'
        if dl:
            src += f'{ind}@target.deleter\n{ind}def target(self):\n{ind}    return H.acc(\'fdel\', [(\'self\', self)])\n'
        return src
    return IMPORTS + 'class KT:\n' + body('    ') + f"@{pr['cdeco']}\nclass K:\n" + body('    ')


def run_prop_ops(H, inst, x):
    H.J = []
    H.inv = {'w': 0, 'o': 0}
    out = []
    for op in x['prop']['ops']:
        mark = len(H.J)
        with contextlib.redirect_stdout(JournalWriter(H)):
            try:
                if op[0] == 'get':
                    res = canon_result(H, inst.target)
                elif op[0] == 'set':
                    inst.target = H.table[op[1]]
                    res = ['none']
                else:
                    del inst.target
                    res = ['none']
            except BaseException as e:
                res = canon_exc(H, e)
                e = None
        evs = H.J[mark:]
        ran = [e[1] for e in evs if e and e[0] == 'acc']
        out.append({'evs': [e for e in evs if not (e and e[0] == 'acc')], 'res': res, 'acc': ran[0] if len(ran) == 1 else (None if not ran else ran)})
    return out


def run_prop(progs, H, loop, x):
    H.bad = {int(i): ks for i, ks in (x.get('bad') or {}).items()}
    H.reset_objects()
    H.script = {'w': outcome_script(x['wkinds']), 'o': []}
    for e in H.script['w']:
        H.obj(e)
    mod, name, exc = progs.load(prop_source(x))
    res = {'deco': exc}
    if not hasattr(mod, 'KT'):
        res['twin'] = None
        return res
    ti = mod.KT()
    H.table[SELF_ID], H.table[CLS_ID] = ti, mod.KT
    res['twin'] = run_prop_ops(H, ti, x)
    if exc:
        return res
    inst = mod.K()
    H.table[SELF_ID], H.table[CLS_ID] = inst, mod.K
    res['ops'] = run_prop_ops(H, inst, x)
    return res


def judge_prop(case, impl, model):
    x = case['x']
    pr = x['prop']
    tag = f"prop:{pr['cdeco']}:" + ''.join(c for c, a in zip('gsd', pr['acc']) if a) + '-/' + '+'.join(o[0] for o in pr['ops'][:3])
    if 'error' in model:
        return {'corr': False, 'pfail': None, 'tag': tag, 'why': 'driver: ' + model['error'], 'nontrivial': False}
    if impl.get('twin') is None or impl.get('deco'):
        return {'corr': False, 'pfail': f"the class with the property could not be built / decorated: {impl.get('deco')}", 'tag': tag, 'why': 'program failed', 'nontrivial': False}
    why = []

    def norm(c):
        return {'evs': collapse([norm_ev(e) for e in c['evs']]), 'res': c['res'][:3], 'acc': c['acc']}
    ic, mc = [norm(c) for c in impl['ops']], [norm(c) for c in model['model']]
    if ic != mc:
        k = next((i for i, (a, b) in enumerate(zip(ic, mc)) if a != b), min(len(ic), len(mc)))
        why.append(f"operation {k} {pr['ops'][k]}: impl {ic[k]} model {mc[k]}")
    it, mt = [norm(c) for c in impl['twin']], [norm(c) for c in model['modelTwin']]
    if it != mt:
        why.append(f'the undecorated class differs from the property model: impl {it} model {mt}')
    pfail = None
    finding = None
    names = {'fget': 'getter', 'fset': 'setter', 'fdel': 'deleter', None: 'no accessor'}
    for k, (c, t, sc) in enumerate(zip(ic, it, model['spec'])):
        if t['res'] != sc['res'] or t['acc'] != sc['acc'] or body_events(t['evs']) != [norm_ev(e) for e in sc['calls']]:
            why.append(f'operation {k}: the undecorated class differs from the specification of a property: {t} vs {sc}')
            break
        what = {'get': 'reading obj.target', 'set': 'obj.target = v', 'del': 'del obj.target'}[pr['ops'][k][0]]
        if c['res'] != sc['res'] and c['res'][:2] == ['exc', 'lib'] and c['res'][2:3] and c['res'][2] in FINDING_OF:
            pfail = (f"operation {k}: {what} raised {c['res'][2]} — the exception of the object's own method, run by the wrapper of the accessor — "
                     f"instead of {sc['res']} (accessors of the property: {[n for n, a in zip(('getter', 'setter', 'deleter'), pr['acc']) if a]})")
        elif c['acc'] != sc['acc']:
            pfail = f"operation {k}: {what} ran {names.get(c['acc'], c['acc'])} instead of {names[sc['acc']]} (accessors of the property: {[n for n, a in zip(('getter', 'setter', 'deleter'), pr['acc']) if a]})"
        elif body_events(c['evs']) != [norm_ev(e) for e in sc['calls']]:
            pfail = f"operation {k}: {what}: accessor invocations {body_events(c['evs'])} instead of {sc['calls']}"
        elif c['res'] != sc['res']:
            pfail = f"operation {k}: {what}: caller saw {c['res']} instead of {sc['res']}"
        if pfail:
            if not why:
                finding = user_method_finding(x, impl['ops'][k])
            break
    if x.get('bad'):
        tag = 'bad:' + tag
    return {'corr': not why, 'pfail': pfail, 'finding': finding, 'tag': tag, 'nontrivial': any(pr['acc']), 'why': '; '.join(why)}


# ------------------------------------------------------------------ one decorator object applied to several callables

SHARED_SHAPES = ['pos', 'pos_cd', 'pos_bd']
SHARED_KW = {'pos': 'K2', 'pos_cd': 'L2', 'pos_bd': 'N2'}
MEMBER_KEY.update({'fn0': 118, 'fn1': 119, 'fn2': 120})
SHARED_BASE = {'mro': [[[118, False, True, True], [119, False, True, True], [120, False, True, True]], []], 'metaMro': [[], []], 'metaGetattr': None, 'dirOverride': None}
SHARED_DECOS = UTIL + ATTRS_ONLY


def mk_shared(d, flavours, calls, wkinds, renames='z', okinds=None, other_flavour='sync', mode='ignore'):
    """calls: [(index of the function, call style)]"""
    l = layer(d, renames=renames)
    x = {'shared': {'flavours': list(flavours), 'calls': [list(cl) for cl in calls]}, 'layers': [l], 'wkinds': list(wkinds),
         'okinds': list(okinds) if okinds is not None else ['equal'] * (len(wkinds) + 2), 'other_flavour': other_flavour, 'mode': mode, 'flavour': flavours[0]}
    wscript = outcome_script(x['wkinds'])
    wl = {'d': d, 'param': [PARAM_ID, PARAM_CLS], 'renames': RENAME_SETS[renames], 'guard': dict(NO_GUARD, isMethodObj=False, notFunction=False)}
    if d == 'overrides':
        wl['base'] = SHARED_BASE
    sig = SHAPES['pos'][3]
    c = {'kind': 'shared', 'layer': wl, 'script': wscript,
         'other': {'coro': other_flavour == 'async', 'sig': dict(sig), 'script': other_script(x['okinds'], wscript)},
         'funcs': [{'coro': fl == 'async', 'sig': SHAPES[SHARED_SHAPES[i]][3], 'fname': MEMBER_KEY[f'fn{i}']} for i, fl in enumerate(flavours)],
         'calls': [{'fn': i, 'pos': STYLES[st][0], 'kw': STYLES[st][1]} for i, st in calls]}
    return {'m': 'utility', 'c': c, 'x': x}


def shared_cases(rng, tier):
    """every decorator of the package, ONE decorator object, applied to two / three functions of every combination of kinds"""
    out = []
    for d in SHARED_DECOS:
        combos = [('sync', 'sync'), ('async', 'async'), ('sync', 'async'), ('async', 'sync'), ('sync', 'sync', 'sync'), ('async', 'sync', 'async')]
        if d in ('safe_contextmanager',):
            combos = [('sync', 'sync'), ('sync', 'sync', 'sync')]
        if d in ('safe_async_contextmanager',):
            combos = [('async', 'async'), ('async', 'async', 'async')]
        for fl in combos:
            if d in ATTRS_ONLY:
                out.append(mk_shared(d, fl, [], []))
                continue
            n = len(fl)
            # interleaved calls: every function called, in both orders, by position and by keyword
            order = [0, 1, 0, 1] if n == 2 else [2, 0, 1, 2, 0]
            for kwcall in ((True,) if d == 'require_kwargs' else (False, True)):
                calls = [(i, SHARED_KW[SHARED_SHAPES[i]] if kwcall else 'P2') for i in order]
                out.append(mk_shared(d, fl, calls, ['ret', 'retp', 'exc', 'ret', 'base', 'ret']))
            out.append(mk_shared(d, fl, [], []))
    return out


def shared_fn_source(d, i, flavour, name, doc, callee='w'):
    a = 'async ' if flavour == 'async' else ''
    if d == 'pedantic':
        return f'{a}def {name}(a: int, b: int) -> int:\n    """{doc}"""\n    return a\n'
    if d in ('validate', 'in_subprocess', 'retry'):
        return f'{a}def {name}(a, b):\n    """{doc}"""\n    return a\n'
    if d in ('safe_contextmanager', 'safe_async_contextmanager'):
        return f'{a}def {name}(a, b):\n    """{doc}"""\n    yield a\n'
    return fn_source(name, SHARED_SHAPES[i], flavour, callee, [], doc=doc)


def shared_deco_expr(l):
    d = l['d']
    if d == 'pedantic':
        return 'pedantic'
    if d == 'validate':
        return "validate(Parameter(name='a'), Parameter(name='b'))"
    if d == 'in_subprocess':
        return 'in_subprocess'
    if d == 'retry':
        return 'retry(attempts=2)'
    if d in ('safe_contextmanager', 'safe_async_contextmanager'):
        return d
    return deco_line(l)[1:]


def shared_source(x):
    sh, l = x['shared'], x['layers'][0]
    d = l['d']
    n = len(sh['flavours'])
    src = IMPORTS + 'class Base:\n' + ''.join(f'    def fn{i}(self, *args, **kwargs):\n        return 1\n' for i in range(3))
    src += fn_source('other', 'pos', x['other_flavour'], 'o', [])
    for i, fl in enumerate(sh['flavours']):
        src += shared_fn_source(d, i, fl, f'twin{i}', f'doc of fn{i}')
        src += shared_fn_source(d, i, fl, f'fn{i}', f'doc of fn{i}')
    src += 'RAW = [' + ', '.join(f'fn{i}' for i in range(n)) + ']\n'
    src += f'DECO = {shared_deco_expr(l)}\n'           # ONE decorator object
    src += ('RESULTS, DECO_EXC = [], []\nfor _f in RAW:\n    try:\n        RESULTS.append(DECO(_f))\n        DECO_EXC.append(None)\n'
            '    except BaseException as _e:\n        RESULTS.append(None)\n        DECO_EXC.append(type(_e).__name__)\n')
    return src


def run_shared(progs, H, loop, x):
    sh, l = x['shared'], x['layers'][0]
    H.bad = {int(i): ks for i, ks in (x.get('bad') or {}).items()}
    H.reset_objects()
    wscript = outcome_script(x['wkinds'])
    H.script = {'w': wscript, 'o': other_script(x['okinds'], wscript)}
    for e in H.script['w'] + H.script['o']:
        H.obj(e)
    mod, name, exc = progs.load(shared_source(x))
    if exc or not hasattr(mod, 'RESULTS'):
        return {'deco': exc or 'no results', 'twin': None}
    n = len(sh['flavours'])
    R = mod.RESULTS
    res = {'deco': None, 'decoExc': list(mod.DECO_EXC)}
    # which object each result is (index of the first result that is the same object), and whose metadata it shows now that all are decorated
    res['objs'] = [next(j for j in range(n) if R[j] is R[i]) if R[i] is not None else None for i in range(n)]

    def shows(r):
        hits = [j for j in range(n) if getattr(r, '__name__', None) == f'fn{j}' and getattr(r, '__qualname__', None) == f'fn{j}'
                and getattr(r, '__doc__', None) == f'doc of fn{j}' and getattr(r, '__module__', None) == name]
        return hits[0] if len(hits) == 1 else None
    res['shows'] = [shows(r) if r is not None else None for r in R]
    res['attrs'] = [[getattr(r, '__name__', None) == f'fn{i}', getattr(r, '__qualname__', None) == f'fn{i}', getattr(r, '__doc__', None) == f'doc of fn{i}',
                     getattr(r, '__module__', None) == name] if r is not None else None for i, r in enumerate(R)]
    res['coro'] = [inspect.iscoroutinefunction(r) if r is not None else None for r in R]
    calls = sh['calls']

    def history(fns, counters):
        H.J = []
        H.inv = {'w': 0, 'o': 0}
        out = []
        for i, st in calls:
            f = fns[i]
            out += run_calls(H, loop, lambda a, k: f(*a, **k), dict(x, styles=[st]), lambda: counters(i), reset=False)
        return out
    res['twin'] = history([getattr(mod, f'twin{i}') for i in range(n)], lambda i: [])
    if all(r is not None for r in R):
        res['calls'] = history(R, lambda i: [R[i].num_calls] if (l['d'] == 'count_calls' and hasattr(R[i], 'num_calls')) else [])
    else:
        res['calls'] = None
    return res


def judge_shared(case, impl, model):
    x = case['x']
    sh, d = x['shared'], x['layers'][0]['d']
    tag = f"shared:{d}/" + '+'.join(f[0] for f in sh['flavours']) + ('/calls' if sh['calls'] else '/attrs')
    if 'error' in model:
        return {'corr': False, 'pfail': None, 'tag': tag, 'why': 'driver: ' + model['error'], 'nontrivial': False}
    if impl.get('twin') is None:
        return {'corr': False, 'pfail': f"building the program with the shared decorator object raised {impl.get('deco')}", 'tag': tag, 'why': 'program failed', 'nontrivial': False}
    m, s = model['model'], model['spec']
    n = len(sh['flavours'])
    why = []
    mdeco = [e[2] if e else None for e in m['deco']]
    sdeco = [e[2] if e else None for e in s['deco']]
    if impl['decoExc'] != mdeco:
        why.append(f"decoration: impl {impl['decoExc']} model {mdeco}")
    if impl['objs'] != m['objs']:
        why.append(f"which wrapper object each application handed out: impl {impl['objs']} model {m['objs']}")
    mshows = [sw if ok else None for sw, ok in zip(m['shows'], m['meta'])]
    if impl['shows'] != mshows:
        why.append(f"whose metadata each result shows: impl {impl['shows']} model {mshows}")
    if impl['coro'] != m['coro']:
        why.append(f"iscoroutinefunction: impl {impl['coro']} model {m['coro']}")
    it, mt = [norm_call(c) for c in impl['twin']], [norm_call(c) for c in model['modelTwin']]
    if it != mt:
        why.append(f'undecorated twins differ from the body model: impl {it} model {mt}')
    if impl['calls'] is not None:
        ic, mc = [norm_call(c) for c in impl['calls']], [norm_call(c) for c in m['calls']]
        if ic != mc:
            k = next((i for i, (a, b) in enumerate(zip(ic, mc)) if a != b), min(len(ic), len(mc)))
            why.append(f"call {k} (of fn{sh['calls'][k][0]}): impl {ic[k] if k < len(ic) else None} model {mc[k] if k < len(mc) else None}")
    pfail = None
    an = ['__name__', '__qualname__', '__doc__', '__module__']
    if impl['decoExc'] != sdeco:
        pfail = f"applying the one {d} decorator object to fn0..fn{n - 1} raised {impl['decoExc']}, expected {sdeco}"
    elif impl['objs'] != s['objs']:
        dup = next(i for i in range(n) if impl['objs'][i] != i)
        pfail = (f"deco = {shared_deco_expr(x['layers'][0])}; the results of deco(fn{impl['objs'][dup]}) and deco(fn{dup}) are ONE object "
                 f"(every application must hand out a callable of its own)")
    elif impl['shows'] != s['shows']:
        bad = next(i for i in range(n) if impl['shows'][i] != i)
        pfail = (f"deco = {shared_deco_expr(x['layers'][0])}; after deco was applied to fn0..fn{n - 1}, deco(fn{bad}) does not preserve " +
                 ', '.join(a for a, ok in zip(an, impl['attrs'][bad]) if not ok) + (f" (it shows those of fn{impl['shows'][bad]})" if impl['shows'][bad] is not None else ''))
    elif any(sc is not None and ic != sc for ic, sc in zip(impl['coro'], s['coro'])):
        pfail = f"coroutine-ness not kept: iscoroutinefunction of the results is {impl['coro']}, the functions are {sh['flavours']}"
    elif s['calls'] is not None and impl['calls'] is not None:
        for k, (ic, sc) in enumerate(zip(impl['calls'], s['calls'])):
            if sc['unspec']:
                break
            ic = norm_call(ic)
            if refused(sc, ic, norm_call(m['calls'][k]) if k < len(m['calls']) else None, x):
                break
            who = f"call {k} (deco(fn{sh['calls'][k][0]}) after deco was applied to all functions)"
            if body_events(ic['evs']) != [norm_ev(e) for e in sc['calls']]:
                pfail = f"{who}: body invocations {body_events(ic['evs'])} instead of {sc['calls']}"
            elif ic['res'] != sc['res']:
                pfail = f"{who}: caller saw {ic['res']} instead of {sc['res']}"
            elif sum(1 for e in ic['evs'] if e == ['warn', 'DeprecationWarning']) != sc['warns']:
                pfail = f"{who}: {sum(1 for e in ic['evs'] if e == ['warn', 'DeprecationWarning'])} DeprecationWarning(s) instead of {sc['warns']}"
            elif ic['counters'] != sc['counters']:
                pfail = f"{who}: num_calls {ic['counters']} instead of {sc['counters']} (every decorated function counts its own calls)"
            if pfail:
                break
    return {'corr': not why, 'pfail': pfail, 'finding': None, 'tag': tag, 'nontrivial': True, 'why': '; '.join(why)}


def judge_gen(case, impl, model):
    x = case['x']
    names = [l['d'] for l in x['layers']] or [x['member']['cdeco'] + ':method']
    tag = 'gen:' + ('+'.join(names) if len(names) < 3 else f'depth{len(names)}') + f"/{'asyncgen' if x['flavour'] == 'async' else 'gen'}/{x['gen']['drive']}"
    if 'error' in model:
        return {'corr': False, 'pfail': None, 'tag': tag, 'why': 'driver: ' + model['error'], 'nontrivial': False}
    if impl.get('twin') is None:
        return {'corr': False, 'pfail': f"importing the generated program raised {impl['deco']} before the undecorated twin was defined",
                'tag': tag, 'why': 'program import failed', 'nontrivial': False}
    m, s = model['model'], model['spec']
    why = []
    fail_k = None

    def norm(c):
        return dict(norm_call(c), res=c['res'], obs=[o[:3] for o in c['obs']])
    it, mt = [norm(c) for c in impl['twin']], [norm(c) for c in model['modelTwin']]
    if it != mt:
        k = next((i for i, (a, b) in enumerate(zip(it, mt)) if a != b), 0)
        why.append(f'the undecorated generator function differs from the generator model at call {k}: impl {it[k]} model {mt[k]}')
    for k, (ic, sc) in enumerate(zip(it, s['twin'])):
        if ic['res'] != sc['res'] or ic['obs'] != sc['obs'] or body_events(ic['evs']) != [norm_ev(e) for e in sc['calls']]:
            why.append(f'the undecorated generator function differs from its specification at call {k}: {ic} vs {sc}')
            break
    md = m['deco'][2] if m['deco'] else None
    sd = s['deco'][2] if s['deco'] else None
    if impl['deco'] != md:
        why.append(f"decoration: impl {impl['deco']} model {md}")
    pfail = None
    if impl['deco'] != sd:
        pfail = f"applying the decorators raised {impl['deco']}, expected {sd}"
    if impl['deco'] is None and md is None:
        ic, mc = [norm(c) for c in impl['calls']], [norm(c) for c in m['calls']]
        if ic != mc:
            k = next((i for i, (a, b) in enumerate(zip(ic, mc)) if a != b), min(len(ic), len(mc)))
            why.append(f'call {k}: impl {ic[k] if k < len(ic) else None} model {mc[k] if k < len(mc) else None}')
        if all(impl['attrs']) != m['meta']:
            why.append(f"metadata: impl {impl['attrs']} model {m['meta']}")
        if impl['coro'] != m['coro']:
            why.append(f"iscoroutinefunction: impl {impl['coro']} model {m['coro']}")
    if impl['deco'] is None and sd is None and pfail is None:
        kind = 'async generator' if x['flavour'] == 'async' else 'generator'
        if not all(impl['attrs']):
            an = ['__name__', '__qualname__', '__doc__', '__module__']
            pfail = 'metadata not preserved: ' + ', '.join(n for n, ok in zip(an, impl['attrs']) if not ok)
        else:
            for k, (ic, sc) in enumerate(zip(impl['calls'], s['calls'])):
                if sc['unspec']:
                    break
                ic = norm(ic)
                if refused(sc, ic, norm(m['calls'][k]) if (md is None and k < len(m['calls'])) else None, x):
                    break
                ops = x['gen']['ops'][k]
                if ic['res'][:1] != sc['res'][:1] or (ic['res'] != sc['res'] and sc['res'][:1] != ['gen']):
                    pfail = f"call {k}: the caller got {ic['res']} instead of {sc['res']}"
                elif ic['obs'] != sc['obs']:
                    j = next((i for i, (a, b) in enumerate(zip(ic['obs'], sc['obs'])) if a != b), min(len(ic['obs']), len(sc['obs'])))
                    pfail = (f"call {k}: driving the {kind} with {ops} ({x['gen']['drive']}): operation {j} {ops[j] if j < len(ops) else ''} showed "
                             f"{ic['obs'][j] if j < len(ic['obs']) else None} instead of {sc['obs'][j] if j < len(sc['obs']) else None}")
                elif body_events(ic['evs']) != [norm_ev(e) for e in sc['calls']]:
                    pfail = (f"call {k}: driving the {kind} with {ops}: its body noted down {body_events(ic['evs'])} instead of {sc['calls']} "
                             f"(send values / thrown exceptions / close must reach the decorated {kind})")
                elif sum(1 for e in ic['evs'] if e == ['warn', 'DeprecationWarning']) != sc['warns']:
                    pfail = f"call {k}: {sum(1 for e in ic['evs'] if e == ['warn', 'DeprecationWarning'])} DeprecationWarning(s) instead of {sc['warns']}"
                elif ic['counters'] != sc['counters']:
                    pfail = f"call {k}: num_calls {ic['counters']} instead of {sc['counters']}"
                elif ic['res'] != sc['res']:
                    pfail = (f"call {k}: the caller got {ic['res']} instead of {sc['res']}: a {kind} object that is not the one the decorated {kind} function made "
                             f"(same result object out)")
                if pfail:
                    fail_k = k
                    break
    corr = not why
    finding = user_method_finding(x, impl['calls'][fail_k]) if (pfail and corr and fail_k is not None) else None
    if x.get('bad'):
        tag = 'bad:' + tag
    return {'corr': corr, 'pfail': pfail, 'finding': finding, 'tag': tag, 'nontrivial': bool(x['styles']) and impl['deco'] is None, 'why': '; '.join(why)}


def awaitable_cases(rng, tier):
    """functions whose RESULT OBJECT is awaitable (an object with __await__, a Future, a Task): the caller must get that very object"""
    out = []
    for d in UTIL:
        for flavour in ('sync', 'async'):
            for shape in (('method',) if d == 'overrides' else ('pos', 'star')):
                for wk in AW_OUTCOMES:
                    oks = ('same', 'diff') if wk != 'reta' else ('same', 'equal', 'diff')
                    for ok in (oks if d == 'does_same_as_function' else ('equal',)):
                        out.append(mk([layer(d)], flavour, shape, [KW_STYLE[shape], KW_STYLE[shape]], [wk, 'ret', wk, 'ret'], [ok, ok, ok, ok], other_flavour=flavour))
    k = 0
    for d1 in GEN_TRANSPARENT:
        for d2 in GEN_TRANSPARENT:
            k += 1
            out.append(mk([layer(d1), layer(d2)], ('sync', 'async')[k % 2], 'pos', ['K2', 'K2', 'K2'], [AW_OUTCOMES[k % 3], AW_OUTCOMES[(k + 1) % 3], 'ret', 'ret', 'ret', 'ret']))
    for cdeco in ('trace_class', 'timer_class'):
        for flavour in ('sync', 'async'):
            for wk in AW_OUTCOMES:
                out.append(mk([], flavour, 'm_method', ['P2', 'K2'], [wk, wk, 'ret'], member={'kind': 'method', 'access': 'instance', 'cdeco': cdeco}))
                if flavour == 'sync':
                    out.append(mk([], flavour, 'm_prop', ['E'], [wk, 'ret'], member={'kind': 'prop', 'access': 'instance', 'cdeco': cdeco}))
    return out



# ------------------------------------------------------------------ objects whose __repr__ / __str__ / __eq__ / __ne__ raise

def bad_cases(rng, tier):
    """arguments and results whose `__repr__` / `__str__` / `__eq__` / `__ne__` raise, under every decorator (those that format or compare
    what passes through them, and the others as controls), alone, in pairs, as methods / properties of a traced class, as generator arguments"""
    out = []
    # identity -> role: positional / keyword argument, first result of the decorated function, first result of other_func
    objs = {'argA': A, 'argB': B, 'res': 100, 'other': 300}
    for d in UTIL:
        for flavour in ('sync', 'async'):
            shape = 'method' if d == 'overrides' else 'pos'
            for who, oid in objs.items():
                if who == 'other' and d != 'does_same_as_function':
                    continue
                for kind in BAD_KINDS:
                    for style in ('P2', 'K2'):
                        for wk in ('ret', 'retp'):
                            if wk == 'retp' and d not in ('trace_if_returns', 'does_same_as_function'):
                                continue
                            for ok in (('equal', 'diff') if d == 'does_same_as_function' else ('equal',)):
                                out.append(mk([layer(d)], flavour, shape, [style, style], [wk, 'ret', 'ret', 'ret'], [ok, 'equal', 'equal', 'equal'],
                                              other_flavour=flavour, bad={oid: [kind]}))
    # stacks of two: a formatting / comparing decorator above and below every other one
    k = 0
    for d1 in ('trace', 'trace_if_returns', 'does_same_as_function'):
        for d2 in UTIL:
            if d2 == 'overrides':
                continue
            for order in ((d1, d2), (d2, d1)):
                k += 1
                oid = (A, B, 100, 100)[k % 4]
                out.append(mk([layer(order[0]), layer(order[1])], ('sync', 'async')[k % 2], 'pos', ['K2', 'K2'], [('ret', 'retp')[k % 2], 'ret', 'ret', 'ret'],
                              bad={oid: [BAD_KINDS[k % 4], BAD_KINDS[(k // 4) % 4]]}))
    # members of a class under trace_class / timer_class: an argument / the result of a method, the result of a property getter
    for cdeco in ('trace_class', 'timer_class'):
        for kind in ('repr', 'str', 'eq'):
            for oid in (A, 100):
                out.append(mk([], 'sync', 'm_method', ['P2', 'K2'], ['ret', 'ret', 'ret'], member={'kind': 'method', 'access': 'instance', 'cdeco': cdeco}, bad={oid: [kind]}))
            out.append(mk([], 'sync', 'm_prop', ['E', 'E'], ['ret', 'ret', 'ret'], member={'kind': 'prop', 'access': 'instance', 'cdeco': cdeco}, bad={100: [kind]}))
            # … and the value assigned through a property setter
            out.append(mk_prop(cdeco, (True, True, True), [['set', A], ['get'], ['del']], ['ret', 'ret', 'ret'], bad={A: [kind]}))
    # the arguments of a generator function
    for d in GEN_TRANSPARENT:
        for flavour in ('sync', 'async'):
            for kind in ('repr', 'eq'):
                out.append(mk_gen([d], flavour, 'pos', [('K2', 'send'), ('P2', 'iter')], ['ret', 'ret', 'ret'], bad={A: [kind]}))
    return out

# ------------------------------------------------------------------ verdict

def collapse(evs):
    out = []
    for e in evs:
        if e == ['print'] and out and out[-1] == ['print']:
            continue
        out.append(e)
    return out


def norm_ev(e):
    if e and e[0] == 'body':
        return ['body', e[1], e[2], sorted(e[3]), list(e[4]), sorted(e[5])]
    return list(e)


def norm_call(c):
    return {'evs': collapse([norm_ev(e) for e in c['evs']]), 'res': c['res'][:3] if c['res'][:2] != ['obj', -1] else c['res'], 'counters': c['counters']}


def body_events(evs):
    return [norm_ev(e) for e in evs if e and ((e[0] == 'body' and e[1] == 'w') or e[0] == 'gen')]


REJECTED = ['exc', 'lib', 'PedanticCallWithArgsException']


def judge_reent(case, impl, model):
    x = case['x']
    r = x['reent']
    depth = len(r['plan'])
    tag = f"reent/{'+'.join(l['d'] for l in x['layers'])}/{x['flavour']}/{r['mode']}/" + ('in-flight' if any(o[0] == 'call' for o in r['ops']) else f'plan{min(depth, 4)}')
    if 'error' in model:
        return {'corr': False, 'pfail': None, 'tag': tag, 'why': 'driver: ' + model['error'], 'nontrivial': False}
    if impl.get('twin') is None or impl.get('deco'):
        return {'corr': False, 'pfail': f"building the re-entrant program raised {impl.get('deco')}", 'tag': tag, 'why': 'program failed', 'nontrivial': False}
    m, s, st = model['model'], model['spec'], model['specTwin']
    why = []
    ic = [norm_call(c) for c in impl['ops']]
    mc = [norm_call(c) for c in m['ops']]
    if ic != mc:
        k = next((i for i, (a, b) in enumerate(zip(ic, mc)) if a != b), min(len(ic), len(mc)))
        why.append(f'operation {k} {r["ops"][k] if k < len(r["ops"]) else ""}: impl {ic[k] if k < len(ic) else None} model {mc[k] if k < len(mc) else None}')
    if all(impl['attrs']) != m['meta']:
        why.append(f"metadata: impl {impl['attrs']} model {m['meta']}")
    if impl['coro'] != m['coro']:
        why.append(f"iscoroutinefunction: impl {impl['coro']} model {m['coro']}")
    # the twin validates the specification of the undecorated recursion
    for k, (tc, sc) in enumerate(zip(impl['twin'], st)):
        tc = norm_call(tc)
        if tc['res'] != sc['res'] or body_events(tc['evs']) != [norm_ev(e) for e in sc['calls']]:
            why.append(f'operation {k}: the undecorated twin differs from the specification of the undecorated recursion: {tc} vs {sc}')
            break
    pfail = None
    if s is not None:
        n_counters = sum(1 for l in x['layers'] if l['d'] == 'count_calls')
        deferred, n_call = {}, 0
        for k, (c, sc) in enumerate(zip(ic, s)):
            want = sc['res']
            # "a decorated coroutine function is still awaited to the same result": a decorator with a coroutine wrapper may hand out a coroutine
            # where the undecorated `async def` raises at once (arguments that do not bind) - the outcome is then due at the await
            if r['ops'][k][0] == 'call':
                if c['res'] == ['coro'] and want != ['coro']:
                    deferred[n_call], want = want, ['coro']
                n_call += 1
            elif r['ops'][k][0] == 'await' and r['ops'][k][1] in deferred:
                want = deferred.pop(r['ops'][k][1])
            if body_events(c['evs']) != [norm_ev(e) for e in sc['calls']]:
                pfail = f"operation {k} {r['ops'][k]}: body invocations {body_events(c['evs'])} instead of {sc['calls']}"
            elif c['res'] != want:
                pfail = f"operation {k} {r['ops'][k]}: caller saw {c['res']} instead of {want}"
            elif sc['settled'] and c['counters'] != [sc['n']] * n_counters:
                pfail = (f"operation {k} {r['ops'][k]}: num_calls of the count_calls layers is {c['counters']} after {sc['n']} calls of the counted function "
                         f"(count_calls counts every call once, also a call that starts while another one is still open)")
            if pfail:
                break
        if pfail is None and n_counters == 1 and impl.get('announced') and len(impl['announced']) == s[-1]['n'] if s else False:
            if len(set(impl['announced'])) != len(impl['announced']):
                pfail = f"the announced call numbers {impl['announced']} are not distinct ({s[-1]['n']} calls)"
    corr = not why
    return {'corr': corr, 'pfail': pfail, 'finding': None, 'tag': tag, 'nontrivial': True, 'why': '; '.join(why)}


def judge_staged(case, impl, model):
    x = case['x']
    tag = 'staged/' + '|'.join('+'.join(l['d'] for l in st['layers']) for st in x['staged'])
    if len(tag) > 60:
        tag = f"staged/{len(x['staged'])}-stages"
    tag += f"/{x['flavour']}" + ('/preset' if x['preset'] is not None else '')
    if 'error' in model:
        return {'corr': False, 'pfail': None, 'tag': tag, 'why': 'driver: ' + model['error'], 'nontrivial': False}
    if impl.get('twin') is None or impl.get('deco'):
        return {'corr': False, 'pfail': f"building the staged program raised {impl.get('deco')}", 'tag': tag, 'why': 'program failed', 'nontrivial': False}
    m, s = model['model'], model['spec']
    why = []
    pfail = None
    # correspondence: per stage, per call: journal, result, the num_calls entry of every wrapper; metadata, coroutine-ness, the carried __dict__ entry
    for si, (ist, mst) in enumerate(zip(impl['stages'], m)):
        ic = [dict(norm_call(c), counters=c['counters']) for c in ist['calls']]
        mc = [dict(norm_call(dict(c, counters=c['attrs'])), counters=c['attrs']) for c in mst['calls']]
        if ic != mc:
            k = next((i for i, (a, b) in enumerate(zip(ic, mc)) if a != b), min(len(ic), len(mc)))
            why.append(f'stage {si} call {k}: impl {ic[k] if k < len(ic) else None} model {mc[k] if k < len(mc) else None} (counters = num_calls entry of every wrapper, outermost first)')
        if all(ist['meta']) != mst['meta']:
            why.append(f"stage {si} metadata: impl {ist['meta']} model {mst['meta']}")
        if ist['coro'] != mst['coro']:
            why.append(f"stage {si} iscoroutinefunction: impl {ist['coro']} model {mst['coro']}")
        if ist['marker'] is not None and ist['marker'] != mst['meta']:
            why.append(f"stage {si}: the __dict__ entry set by hand is {'still there' if ist['marker'] else 'gone'}, model says wraps everywhere = {mst['meta']}")
    # property: the twin, then every call against the specification; counters of the count_calls layers only
    kinds = []
    k_tw = 0
    stop = False
    for si, (ist, sst) in enumerate(zip(impl['stages'], s)):
        kinds = [l['d'] for l in reversed(x['staged'][si]['layers'])][::-1] + kinds       # outermost first, like the wrappers
        if stop:
            break
        if not all(ist['meta']):
            pfail = f'stage {si}: metadata not preserved'
            break
        if sst['coro'] is not None and ist['coro'] != sst['coro']:
            pfail = f"stage {si}: coroutine-ness not kept: iscoroutinefunction is {ist['coro']}"
            break
        for k, (ic, sc) in enumerate(zip(ist['calls'], sst['calls'])):
            if sc['unspec']:
                stop = True
                break
            ic = norm_call(ic)
            counts = [v for v, d in zip(ic['counters'], kinds) if d == 'count_calls']
            if body_events(ic['evs']) != [norm_ev(e) for e in sc['calls']]:
                pfail = f"stage {si} call {k}: body invocations {body_events(ic['evs'])} instead of {sc['calls']}"
            elif ic['res'] != sc['res']:
                pfail = f"stage {si} call {k}: caller saw {ic['res']} instead of {sc['res']}"
            elif sum(1 for e in ic['evs'] if e == ['warn', 'DeprecationWarning']) != sc['warns']:
                pfail = f"stage {si} call {k}: {sum(1 for e in ic['evs'] if e == ['warn', 'DeprecationWarning'])} DeprecationWarning(s) instead of {sc['warns']}"
            elif counts != sc['counters']:
                pfail = (f"stage {si} call {k}: num_calls of the count_calls layers (outermost first) is {counts} instead of {sc['counters']} "
                         f"(every decoration counts its own calls, starting from zero)")
            if pfail:
                stop = True
                break
    corr = not why
    return {'corr': corr, 'pfail': pfail, 'finding': None, 'tag': tag, 'nontrivial': any(st['styles'] for st in x['staged']), 'why': '; '.join(why)}


COMPARERS = {'trace_if_returns', 'does_same_as_function'}                                 # compare the result with ==, !=
REFUSAL_UNFORMATTABLE = ['exc', 'lib', 'ReprErr']


def refused(sc, ic, mc, x):
    """the call was refused by require_kwargs before anything underneath ran: with PedanticCallWithArgsException — or, as long as
    FunctionCall.assert_uses_kwargs formats the refused arguments themselves (generated fact refusalMessageFormatsRawArguments, which the
    model follows: it predicts the same outcome), with the exception of an argument's __repr__ while that message is built.  Which calls
    are refused, and with which message, is C05's subject (pending repair `messages_never_raise` of function_call.py)."""
    if not sc.get('mayReject') or body_events(ic['evs']):
        return False
    if ic['res'] == REJECTED:
        return True
    return bool(x.get('bad')) and ic['res'] == REFUSAL_UNFORMATTABLE and mc is not None and mc['res'] == REFUSAL_UNFORMATTABLE


def user_method_finding(x, call):
    """a call of a case with objects whose methods raise came out as the exception of `__eq__` / `__ne__`, and a decorator that is recorded
    to compare what passes through it is in the stack: the finding (any other decorator doing so is a violation)"""
    if not x.get('bad') or not call:
        return None
    r = call['res']
    f = FINDING_OF.get(r[2]) if r[:2] == ['exc', 'lib'] and len(r) > 2 else None
    names = {l['d'] for l in x.get('layers', [])}
    # formatting (`__repr__` / `__str__`) is no finding any more: every decorator formats through the never-raising display wrapper
    # (repair of traceFormatsArgumentsAndResults); a formatting exception that escapes from a decorated call is a violation
    if f == COMPARE_FINDING and names & COMPARERS:
        return f
    return None


def judge(case, impl, model):
    x = case['x']
    if 'error' in model and ('gen' in x or 'prop' in x or 'shared' in x):
        return {'corr': False, 'pfail': None, 'tag': 'driver-error', 'why': 'driver: ' + str(model['error']), 'nontrivial': False}
    m, s = model['model'], model['spec']
    if 'attrs' in x:
        tag = f"attrs/{x['attrs']}/{x['flavour']}"
        if impl.get('deco'):
            return {'corr': False, 'pfail': f"applying {x['attrs']} raised {impl['deco']}", 'tag': tag, 'why': 'decoration failed'}
        corr = all(impl['attrs']) == m['meta'] and (m['coro'] is None or impl['coro'] == m['coro'])
        pfail = None
        if not all(impl['attrs']):
            names = ['__name__', '__qualname__', '__doc__', '__module__']
            pfail = f"{x['attrs']} applied to a{'n async' if x['flavour'] == 'async' else ''} function does not preserve " + \
                    ', '.join(n for n, ok in zip(names, impl['attrs']) if not ok)
        elif s['coro'] is not None and impl['coro'] != s['coro']:
            pfail = f"inspect.iscoroutinefunction({x['attrs']}(f)) is {impl['coro']} for a{'n async' if x['flavour'] == 'async' else ''} function"
        return {'corr': corr, 'pfail': pfail, 'tag': tag, 'nontrivial': True, 'why': '' if corr else f'model says meta={m["meta"]} coro={m["coro"]}'}

    if 'ovr' in x:
        o = x['ovr']
        tag = f"overrides-only/{o['base']}/{'own-name' if o['member'] == o['fname'] else 'other-name'}"
        md = m['deco'][2] if m['deco'] else None
        sd = s['deco'][2] if s['deco'] else None
        why = []
        if impl.get('obs') is None:
            return {'corr': False, 'pfail': f"importing the generated program raised {impl['deco']} before the base class was defined",
                    'tag': tag, 'why': 'program import failed', 'nontrivial': False}
        if impl['deco'] != md:
            why.append(f"decoration: impl {impl['deco']} model {md}")
        if [impl['obs']] != model['classObs']:
            why.append(f"class lookup [in dir, hasattr, in __dict__, getattr is None, truthy, callable]: real {impl['obs']} model {model['classObs']}")
        deco_unspec = bool(s.get('decoUnspec'))
        if not deco_unspec and model['specHasName'] != [impl['obs'][0]]:
            why.append(f"specification's listing of the class ({model['specHasName']}) differs from dir() ({impl['obs'][0]})")
        if impl['deco'] is None and md is None and (impl['coro'] != m['coro'] or not m['meta']):
            why.append(f"identity layer: impl coro {impl['coro']}, model coro {m['coro']} meta {m['meta']}")
        pfail = None
        if deco_unspec:
            tag += ':unspec'
        elif impl['deco'] != sd:
            pfail = f"@overrides(Base) on `def {o['fname']}` raised {impl['deco']}, expected {sd} (base class variant {o['base']}, member under test `{o['member']}`)"
        elif impl['deco'] is None and not impl['same']:
            pfail = 'overrides did not hand back the decorated function itself'
        return {'corr': not why, 'pfail': pfail, 'finding': None, 'tag': tag, 'nontrivial': True, 'why': '; '.join(why)}

    if 'staged' in x:
        return judge_staged(case, impl, model)
    if 'reent' in x:
        return judge_reent(case, impl, model)
    if 'gen' in x:
        return judge_gen(case, impl, model)
    if 'prop' in x:
        return judge_prop(case, impl, model)
    if 'shared' in x:
        return judge_shared(case, impl, model)
    names = [l['d'] for l in x['layers']] or [x['member']['cdeco'] + ':' + x['member']['kind'] + ':' + x['member']['access']]
    tag = '+'.join(names) if len(names) < 3 else f'depth{len(names)}'
    if 'rk' in x:
        tag = f"rk:{x['rk']}:{x['access'] or '-'}:" + tag
    if names == ['overrides']:
        tag += ':' + '/'.join(base_of(x['layers'][0]))
    tag += f"/{x['flavour']}/{x['shape']}"
    why = []
    pfail = None
    fail_k = None
    if impl.get('twin') is None:
        return {'corr': False, 'pfail': f"importing the generated program raised {impl['deco']} before the undecorated twin was defined",
                'tag': tag, 'why': 'program import failed', 'nontrivial': False}
    # the twin validates the body/binding model and the spec of the undecorated function
    mt = [norm_call(c) for c in model['modelTwin']]
    it = [norm_call(c) for c in impl['twin']]
    if mt != it:
        why.append(f'undecorated twin differs from the body model: impl {it} model {mt}')
    for k, (ic, sc) in enumerate(zip(it, s['twin'])):
        if ic['res'] != sc['res'] or body_events(ic['evs']) != [norm_ev(e) for e in sc['calls']]:
            why.append(f'undecorated twin differs from the spec of the undecorated function at call {k}')
    # decoration time
    md = m['deco'][2] if m['deco'] else None
    sd = s['deco'][2] if s['deco'] else None
    if impl['deco'] != md:
        why.append(f"decoration: impl {impl['deco']} model {md}")
    if 'obs' in impl and any(o != impl['obs'] for o in model['classObs']):
        why.append(f"class lookup [in dir, hasattr, in __dict__, getattr is None, truthy, callable]: real {impl['obs']} model {model['classObs']}")
    deco_unspec = bool(s.get('decoUnspec'))      # the class named by an `overrides` layer states its own dir() listing: not specified
    if 'obs' in impl and not deco_unspec and any(h != impl['obs'][0] for h in model['specHasName']):
        why.append(f"specification's listing of the class ({model['specHasName']}) differs from dir() ({impl['obs'][0]})")
    if deco_unspec:
        sd = impl['deco']
    if impl['deco'] != sd:
        pfail = f"applying the decorators raised {impl['deco']}, expected {sd}"
    if impl['deco'] is None and md is None:
        ic = [norm_call(c) for c in impl['calls']]
        mc = [norm_call(c) for c in m['calls']]
        if ic != mc:
            k = next((i for i, (a, b) in enumerate(zip(ic, mc)) if a != b), min(len(ic), len(mc)))
            why.append(f'call {k}: impl {ic[k] if k < len(ic) else None} model {mc[k] if k < len(mc) else None}')
        if all(impl['attrs']) != m['meta']:
            why.append(f"metadata: impl {impl['attrs']} model {m['meta']}")
        if impl['coro'] != m['coro']:
            why.append(f"iscoroutinefunction: impl {impl['coro']} model {m['coro']}")
    if impl['deco'] is None and sd is None and pfail is None:
        if not all(impl['attrs']):
            an = ['__name__', '__qualname__', '__doc__', '__module__']
            pfail = 'metadata not preserved: ' + ', '.join(n for n, ok in zip(an, impl['attrs']) if not ok)
        elif s['coro'] is not None and impl['coro'] != s['coro']:
            pfail = f"coroutine-ness not kept: iscoroutinefunction is {impl['coro']}, the function is {'async' if s['coro'] else 'sync'}"
        else:
            for k, (ic, sc) in enumerate(zip(impl['calls'], s['calls'])):
                if sc['unspec']:
                    break
                ic = norm_call(ic)
                if refused(sc, ic, norm_call(m['calls'][k]) if (md is None and k < len(m['calls'])) else None, x):
                    break       # refused by require_kwargs before anything underneath ran (which calls are refused: C05); the history is not followed further
                fail_k = k
                if body_events(ic['evs']) != [norm_ev(e) for e in sc['calls']]:
                    pfail = f"call {k}: body invocations {body_events(ic['evs'])} instead of {sc['calls']}"
                elif ic['res'] != sc['res']:
                    pfail = f"call {k}: caller saw {ic['res']} instead of {sc['res']}"
                elif sum(1 for e in ic['evs'] if e == ['warn', 'DeprecationWarning']) != sc['warns']:
                    pfail = f"call {k}: {sum(1 for e in ic['evs'] if e == ['warn', 'DeprecationWarning'])} DeprecationWarning(s) instead of {sc['warns']}"
                elif ic['counters'] != sc['counters']:
                    pfail = f"call {k}: num_calls {ic['counters']} instead of {sc['counters']}"
                if pfail:
                    break
    corr = not why
    finding = model.get('region') if (pfail and corr and model.get('region')) else None
    if pfail and corr and not finding and fail_k is not None:
        finding = user_method_finding(x, impl['calls'][fail_k])
    if x.get('bad'):
        tag = 'bad:' + tag
    return {'corr': corr, 'pfail': pfail, 'finding': finding, 'tag': tag, 'nontrivial': bool(x['styles']) and impl['deco'] is None,
            'why': '; '.join(why)}


def shrink(c, judge_cases):
    """a generator case that fails on the identity of the generator object alone: look for the behavioural consequence on the same program
    (values sent, exceptions thrown, the return value) and report that input instead, when there is one"""
    x = c.get('x', {})
    if x.get('bad'):
        # the failing input involves objects whose __repr__ / __eq__ … raise — inputs of that kind also fail (as recorded findings) on the
        # unchanged tree: prefer a failing input without them, so that the replay shows what is NEW (one more pass over the generated cases)
        cand = [k for k in cases(random.Random(17), 'quick') if not k['x'].get('bad')]
        fails = [r for r in judge_cases(cand) if r[3]['pfail'] and not r[3]['finding']]
        if not fails:
            more = [k for k in search(random.Random(99991), 'quick', []) if not k['x'].get('bad')]
            fails = [r for r in judge_cases(more) if r[3]['pfail'] and not r[3]['finding']]
        if fails:
            best = min(fails, key=lambda r: len(json.dumps(r[0], default=str)))
            return shrink(best[0], judge_cases) or best
        return None
    if 'gen' not in x:
        return None
    first = judge_cases([c])[0]
    if not first[3]['pfail'] or 'not the one the decorated' not in first[3]['pfail']:
        return None
    for on in ('send', 'mixed', 'throw_mid', 'iter'):
        cand = mk_gen(x['layers'], x['flavour'], x['shape'], [(x['styles'][0], on)], x['wkinds'][:1] + ['ret'], drive=x['gen']['drive'], member=x['member'], mode=x['mode'])
        r = judge_cases([cand])[0]
        if r[3]['pfail'] and 'not the one the decorated' not in r[3]['pfail']:
            return r
    return first


def extra_coverage(results):
    progs = set()
    calls = 0
    for (c, i, m, j) in results:
        x = c['x']
        if 'ovr' in x:
            progs.add(json.dumps(x, sort_keys=True))
        elif 'reent' in x:
            progs.add(json.dumps([x['layers'], x['flavour'], x['reent']['mode']], sort_keys=True))
            calls += len(x['reent']['ops']) + sum(len(p) for p in x['reent']['plan'])
        elif 'staged' in x:
            progs.add(json.dumps([x['staged'], x['flavour'], x['preset']], sort_keys=True))
            calls += sum(len(st['styles']) for st in x['staged'])
        elif 'prop' in x or 'shared' in x:
            progs.add(json.dumps(x, sort_keys=True))
            calls += len(x['prop']['ops']) if 'prop' in x else len(x['shared']['calls'])
        elif 'attrs' not in x:
            progs.add(json.dumps([x['layers'], x['flavour'], x['shape'], x['member'], x['other_flavour'], x.get('rk'), x.get('access')], sort_keys=True))
            calls += len(x['styles'])
    return {'generated_programs': len(progs), 'calls_executed_on_decorated_and_twin': calls}
