"""C02 — completeness and spelling independence: conforming values must be accepted; equivalent spellings of one
annotation and different iteration orders of one set/dict value must get the same verdict."""
import json
import _checker_common as K
import _callable_common as KC
import _intro_common as T

RULE = ('as C01 (type-directed annotation terms, values generated to conform, corruptions, arbitrary values) and for every case up to three '
        're-spellings of the annotation (typing <-> PEP 585 at random nodes, Union / X|Y / Optional, shuffled Union members) and re-orderings '
        'of the value (mapping items / set elements inserted in another order), all run on the implementation. non-trivial = generic / union '
        'annotation or container value')
EXHAUSTIVE = {'quick': False, 'thorough': False}
ASSUMPTIONS = ['values whose own __eq__/__repr__/__hash__ raise or lie are excluded']
TRUSTED = ['the spec is spelling-independent by theorem (conforms_erase), so the spec value of the main spelling is used for its re-spellings']


def respell(r, t):
    k = t[0]
    flip = lambda sp: r.choice(['typing', 'pep585'])
    if k == 'union':
        ms = [respell(r, m) for m in t[2]]
        r.shuffle(ms)
        sp = r.choice(['union', 'pipe'] + (['optional'] if len(ms) == 2 and ["cls", K.IDX[K.NoneType]] in ms else []))
        return ["union", sp, ms]
    if k == 'typeof': return ["typeof", flip(t[1]), t[2]]
    if k == 'seq': return ["seq", flip(t[1]), t[2], respell(r, t[3])]
    if k == 'map': return ["map", flip(t[1]), t[2], respell(r, t[3]), respell(r, t[4])]
    if k == 'tuple': return ["tuple", flip(t[1]), [respell(r, x) for x in t[2]]]
    if k == 'tuplevar': return ["tuplevar", flip(t[1]), respell(r, t[2])]
    return t


def reorder(r, v):
    k = v[0]
    if k == 'mapping':
        kvs = [[a, reorder(r, b)] for a, b in v[2]]
        r.shuffle(kvs)
        return [k, v[1], kvs]
    if k in ('coll', 'tup'):
        xs = [reorder(r, x) for x in v[2]]
        if k == 'coll' and K.CLASSES[v[1]] in (set, frozenset):
            r.shuffle(xs)
        return [k, v[1], xs]
    return v


def add_alts(rng, case):
    at, vt = case['c']['ann'], case['c']['val']
    alts = []
    for _ in range(3):
        try:
            a2 = K.canon_ann(respell(rng, at))[0]
        except Exception:
            continue
        if a2 != at and a2 not in alts:
            alts.append(a2)
    valts = []
    if not K.has_iterator(vt):
        v2 = reorder(rng, vt)
        if v2 != vt:
            valts.append(v2)
    case['x']['alts'] = alts
    case['x']['valts'] = valts
    return case


def cases(rng, tier):
    n = 9000 if tier == 'quick' else 120000
    out = [add_alts(rng, c) for c in K.gen_checker_cases(rng, n) + K.name_family() + K.big_cases(rng, 60 if tier == 'quick' else 600) + K.alias_cases(rng, 150 if tier == 'quick' else 1500) + K.cyclic_cases(rng, 120 if tier == 'quick' else 1200)]
    if tier == 'thorough':
        vals = K.small_values()
        for at in K.small_terms():
            for vt in vals:
                out.append(add_alts(rng, K.mk_case(at, vt, kind='small')))
    out += KC.gen_cases(rng, tier)          # simple Callable signatures (separate model PedVerif.Callable), with re-spellings
    out += [add_alts(rng, c) for c in T.extra_cases(rng, tier)]      # exits of the translated checker the generator meets rarely (ir tie)
    return out


def search(rng, tier, near):
    return [add_alts(rng, c) for c in K.gen_checker_cases(rng, 30000)] + KC.search(rng, tier, near)


def run_impl(cases):
    T.prepare(cases)
    kc = [c for c in cases if c['m'] == 'callable']
    kc_out = iter(KC.run_impl(kc)) if kc else iter(())
    out = []
    for c in cases:
        if c['m'] == 'callable':
            out.append(next(kc_out)); continue
        T.fresh_typing()
        try:
            ao = K.build_ann(c['c']['ann'])
        except Exception as e:
            out.append({'out': 'unbuildable:' + type(e).__name__, 'alts': [], 'valts': []})
            continue
        o, tr = T.run_assert_traced(ao, K.build_val_for_case(c), c)
        r = {'out': o, 'alts': [], 'valts': []}
        if tr is not None:
            r['trace'] = tr
        for a2 in c['x'].get('alts', []):
            r['alts'].append(K.run_assert(K.build_ann(a2), K.build_val_for_case(c)))
        for v2 in c['x'].get('valts', []):
            r['valts'].append(K.run_assert(ao, K.build_val_for_case(c, v2)))
        out.append(r)
    return out


FINDING_OF_REGION = [('namedtupleFieldMismatch', 'namedtupleFieldMismatch'),     # (the wider `namedtupleVsPlainClass` is repaired)
                     ('emptyFixedTuple', 'emptyFixedTuple')]


def judge(case, impl, model):
    if case['m'] == 'callable':
        return KC.judge_complete(case, impl, model)
    assert model['wf'], 'harness bug: value is not well-formed w.r.t. the class table: ' + json.dumps(case['c']['val'])
    io = impl['out']
    if io.startswith('unbuildable'):
        return {'corr': True, 'pfail': None, 'nontrivial': False, 'tag': 'unbuildable'}
    ic, mc = K.verdict_class(io), K.verdict_class(model['out'])
    corr = ic == mc
    regions = model['regions']
    pfail = None
    claimed = model['inVocab'] and 'iterator' not in regions and 'fwdUnresolved' not in regions and 'typeOfNonClass' not in regions
    if claimed and model['spec'] and ic != 'accept':
        pfail = f'rejected ({io}) although the value conforms to the annotation (spec `conforms` = true)'
    if pfail is None and claimed:
        for a2, o2 in zip(case['x'].get('alts', []), impl['alts']):
            if K.verdict_class(o2) != ic:
                pfail = f'verdict depends on the spelling: {io} for the annotation, {o2} for its re-spelling {json.dumps(a2)}'
                break
        for v2, o2 in zip(case['x'].get('valts', []), impl['valts']):
            if pfail is None and K.verdict_class(o2) != ic:
                pfail = f'verdict depends on the iteration order of the value: {io} vs {o2} for {json.dumps(v2)}'
    finding = None
    if pfail and corr:
        for reg, fid in FINDING_OF_REGION:
            if reg in regions:
                finding = fid
                break
    ann, val = case['c']['ann'], case['c']['val']
    nontrivial = ann[0] not in ('cls', 'any', 'none') or val[0] not in ('lit', 'inst')
    j = {'corr': corr, 'pfail': pfail, 'finding': finding, 'nontrivial': nontrivial,
         'tag': f"{ann[0]}/{io.split(':')[0]}/spec={int(model['spec'])}/alts={len(impl['alts'])}",
         'why': '' if corr else f'implementation {io} vs model {model["out"]}'}
    return T.apply(j, case, impl, model)      # + introspection record, `if` tests and statement trace of the interpreted translation


def extra_coverage(results):
    return T.coverage(results)


def twins(case):
    """amplified run: P <-> Pdup, 1 <-> True <-> 1.0, Literal members (see _checker_common.twins); call-level cases: primed twins"""
    return K.twins(case)


export_state, import_state = K.export_state, K.import_state      # the name table travels with replays / amplified runs
