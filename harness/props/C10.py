"""C10 — type-safe frozen dataclass: generated dataclass modules (real files), all three construction paths plus
validate_types(), zero or one non-conforming field at each position, inheritance, slots, user __post_init__."""
import sys, os, json, tempfile, shutil, importlib.util, dataclasses, copy
import _checker_common as K
import _frozentrace_common as FT

RULE = ('generated dataclass modules: 1-5 fields from an annotation pool (classes, Optional, Union, List / list, Dict, Tuple, Set, Literal, '
        'user classes, forward references naming a class of the module, SELF-REFERENTIAL fields (List / Optional / Dict / Tuple / Union of the dataclass itself or of its decorated subclass, as forward reference or plain string, holding real instances of the generated class), classes defined INSIDE A FUNCTION with forward references to function-local classes (resolved in the frame of the caller), Any), defaults and default factories, decorated base + decorated '
        'subclass (fields declared in the parent), slots / order / kw_only, type_safe on and off, a user __post_init__ that journals or raises; '
        'operations: constructor, copy_with (replacing each field in turn), deep_copy_with with and WITHOUT keywords after an in-place '
        'mutation of a mutable field, validate_types() on valid instances and after object.__setattr__ / in-place mutation; values conforming '
        'or with exactly one non-conforming field at each position. Every operation is also run through the statement programs translated from the '
        'source (Frozen IR): same outcome, same number of user-hook runs, the field values of a copy as computed by the translated copy method, and the '
        'statements executed by the real library (line events inside cls_deco_frozen_dataclass.py / get_context.py) equal the path of the IR interpreter. '
        'non-trivial = some field value does not conform or the class has >= 2 fields')
EXHAUSTIVE = {'quick': False, 'thorough': False}
ASSUMPTIONS = ['function-local classes: the operation is executed by the function that defines the classes (a caller elsewhere cannot see the names at all: region fwdUnresolved)',
               'dataclasses machinery (defaults, replace, fields(), slots, inheritance of fields) is environment: the harness supplies the field list reported by dataclasses.fields() and the values the fields hold when __post_init__ runs']
TRUSTED = ['statement traces: sys.monitoring LINE / PY_START events (tool id 3, local to the code objects of the two source files), lines mapped to statements with the table the translator computes from the current source; the trace conventions (a multi-line statement counts once per execution, a loop header once more at loop exit) are the same on both sides and validated by the agreement itself',
           'dataclasses.__init__ calls __post_init__; dataclasses.replace re-enters __init__; copy.deepcopy preserves structure (C11: deepcopy_veq)']

POOL = [('int', True), ('str', True), ('float', True), ('bool', True), ('List[int]', True), ('list[int]', True), ('Dict[str, int]', True),
        ('Optional[int]', True), ('Union[int, str]', True), ('Tuple[int, str]', True), ('Tuple[int, ...]', True), ('Set[int]', True), ('P', False),
        ('Any', True), ('Sequence[str]', True), ('int | None', True), ('Literal[1, 2]', True), ("List['C1']", False), ('Optional[P]', False),
        ('Dict[str, List[int]]', True), ('list[Optional[int]]', True), ('List[List[int]]', True), ('List[Tuple[int, str]]', True),
        ('Sequence[Dict[str, int]]', True), ('List[Optional[List[int]]]', True), ('List[Literal[1, 2]]', True), ('list[list[int]]', True)]
# self-referential fields: the dataclass is then called SelfA (its decorated subclass SelfB); the class table holds two placeholder
# classes of that shape, the context of the case binds their names, and real instances are substituted when values are built
SELF_POOL_A = ["List['SelfA']", "Optional['SelfA']", "Dict[str, 'SelfA']", "Tuple['SelfA', ...]", "'SelfA'", "list['SelfA']",
               "Union[int, 'SelfA']", "Optional[List['SelfA']]"]
SELF_POOL_B = SELF_POOL_A + ["List['SelfB']", "Optional['SelfB']", "'SelfB'", "Dict[str, 'SelfB']"]
# classes defined inside a function: the dataclass, its subclass and a helper class Loc are locals of `scope`, which also executes the
# operation - forward references to them can only be resolved in the frame of the caller (get_context depth arithmetic)
LOCAL_POOL = ["List['Loc']", "Optional['Loc']", "'Loc'", "Dict[str, 'Loc']", "Tuple['Loc', int]", "Union[int, 'Loc']"]
SCOPE_TAIL = '''
    if op is None:
        return locals()
    cls = CLS
    mk = build({k: v for k, v in locals().items() if k in ('Loc', 'SelfA', 'SelfB')})
    recipe = op['recipe']
    if recipe[0] == 'ctor':
        given = {n: mk(t) for n, t in op['vals'].items() if n not in op.get('omit', ())}
        _mark()
        obj = cls(*given.values()) if op.get('positional') else cls(**given)
        return 'INSTANCE' if type(obj) is cls else 'OTHER'
    try:
        inst = cls(**{n: mk(t) for n, t in op['base'].items()})
    except BaseException as e:
        raise SetupFailed(e)
    del J[:]
    if recipe[0] == 'copy':
        new = {recipe[1]: mk(op['vals'][recipe[1]])}
        _mark()
        obj = getattr(inst, op['path'])(**new)
        return 'INSTANCE' if type(obj) is cls else 'OTHER'
    if recipe[0] == 'mutate':
        getattr(inst, recipe[1]).append(U())
    if recipe[0] == 'setattr':
        object.__setattr__(inst, recipe[1], mk(op['vals'][recipe[1]]))
    _mark()
    if op['path'] == 'validate':
        inst.validate_types()
        return 'INSTANCE'
    obj = getattr(inst, op['path'])()
    return 'INSTANCE' if type(obj) is cls else 'OTHER'
'''
PRELUDE = '''from typing import *
import dataclasses
from pedantic import frozen_dataclass, frozen_type_safe_dataclass
from _checker_common import P, C1, C2, G, U, MI
J = []
def _mark():
    """the operation under test starts here (the harness replaces this function: statement traces are recorded from here on)"""
class PostErr(Exception): pass
class SetupFailed(Exception): pass
@frozen_type_safe_dataclass
class Inner:
    v: int
def _nested():
    """what a user __post_init__ may do: build another type-safe instance (here: with a non-conforming field)"""
    from pedantic.exceptions import PedanticTypeCheckException
    try:
        Inner(v='bad')
        J.append(('inner-accepted',))
    except PedanticTypeCheckException:
        pass
    Inner(v=1)
'''


DEFAULTS = {'int': ['5', "'bad'", 'None'], 'str': ["'d'", '5'], 'float': ['1.5', "'x'"], 'bool': ['True', '0'], 'Optional[int]': ['None', '3', "'x'"],
            'Union[int, str]': ['1', 'None'], 'Tuple[int, str]': ["(1, 'a')", '(1, 2)'], 'Tuple[int, ...]': ['()', "(1, 'x')"], 'Any': ['None'],
            'int | None': ['None', "'x'"], 'Literal[1, 2]': ['1', '3'], 'List[int]': ['dataclasses.field(default_factory=list)',
                                                                                     "dataclasses.field(default_factory=lambda: ['x'])"],
            'list[int]': ['dataclasses.field(default_factory=lambda: [1, 2])'], 'Dict[str, int]': ['dataclasses.field(default_factory=dict)'],
            'Set[int]': ['dataclasses.field(default_factory=set)'], 'P': ['P()', 'None'], 'Optional[P]': ['None', 'P()'],
            "Optional['SelfA']": ['None'], "List['SelfA']": ['dataclasses.field(default_factory=list)'], "Optional['Loc']": ['None']}


def gen_class(r, idx):
    nf = r.randint(1, 4)
    sub = r.choice(['none', 'none', 'deco_sub', 'deco_sub'])
    base_kind = r.choice(['same'] * 4 + ['untyped', 'plain']) if sub == 'deco_sub' else 'same'      # what the BASE of a type-safe subclass is
    ts = r.random() < 0.88
    slots = r.random() < 0.3
    order = r.random() < 0.2
    post = r.choice(['absent'] * 4 + ['runs', 'runs', 'raises', 'nested'])
    kwonly = r.random() < 0.8            # kw_only=False: positional construction is possible
    shortcut = ts and not slots and not order and kwonly and r.random() < 0.3
    def dflt(a):
        return (' = ' + r.choice(DEFAULTS[a])) if a in DEFAULTS and r.random() < 0.3 else ''
    local = r.random() < 0.22
    selfref = local or r.random() < 0.3
    an, bn = ('SelfA', 'SelfB') if selfref else (f'A{idx}', f'B{idx}')
    def ann(pool):
        if local and r.random() < 0.4: return r.choice(LOCAL_POOL)
        return r.choice(pool) if selfref and r.random() < 0.6 else r.choice(POOL)[0]
    fields = [(f'f{i}', ann(SELF_POOL_A)) for i in range(nf)]
    deco = '@frozen_type_safe_dataclass' if shortcut else f'@frozen_dataclass(type_safe={ts}, slots={slots}, order={order}' + ('' if kwonly else ', kw_only=False') + ')'
    if base_kind == 'untyped':          # a frozen_dataclass base WITHOUT type_safe below a type-safe subclass: the subclass checks the inherited fields too
        deco = f'@frozen_dataclass(type_safe=False, slots={slots}, order={order}' + ('' if kwonly else ', kw_only=False') + ')'
    if base_kind == 'plain':            # a plain stdlib frozen dataclass as base
        deco = f'@dataclasses.dataclass(frozen=True, slots={slots}, kw_only={kwonly})'
    lines = [deco, f'class {an}:']
    for n, a in fields:
        lines.append(f'    {n}: {a}{dflt(a)}')
    if post == 'runs':
        lines += ['    def __post_init__(self):', f'        J.append(("post", {idx}))']
    if post == 'nested':
        lines += ['    def __post_init__(self):', f'        J.append(("post", {idx}))', '        _nested()']
    if post == 'raises':
        lines += ['    def __post_init__(self):', f'        J.append(("post", {idx}))', '        raise PostErr()']
    cls = an
    levels = 1
    if sub == 'deco_sub':
        ns = r.randint(1, 2)
        own = [(f'g{i}', ann(SELF_POOL_B)) for i in range(ns)]
        if base_kind != 'same':
            ts = True
        lines += [f'@frozen_dataclass(type_safe={ts}, slots={slots}' + ('' if kwonly else ', kw_only=False') + ')', f'class {bn}({an}):']
        for n, a in own:
            lines.append(f'    {n}: {a}{dflt(a)}')
        own_post = r.choice(['absent', 'absent', 'runs', 'raises'])      # the derived class may define its own __post_init__ (overrides the inherited one)
        if own_post == 'runs':
            lines += ['    def __post_init__(self):', f'        J.append(("post", {idx}))']
            post = 'runs'
        if own_post == 'raises':
            lines += ['    def __post_init__(self):', f'        J.append(("post", {idx}))', '        raise PostErr()']
            post = 'raises'
        cls = bn
        if own_post == 'absent' and ts and base_kind == 'same':
            levels = 2          # the subclass inherits the wrapped __post_init__ of its base: two validating wrappers run
    if local:
        lines = ['def scope(op, build):', "    C1 = str     # decoy: the module's C1 must win", '    class Loc: pass'] + ['    ' + l for l in lines] + \
                SCOPE_TAIL.replace('CLS', cls).splitlines()
    return {'src': '\n'.join(lines) + '\n', 'cls': cls, 'ts': ts, 'post': post, 'idx': idx, 'selfref': selfref, 'local': local, 'levels': levels, 'kwonly': kwonly,
            'nbase': nf}


def load(src, tag):
    d = tempfile.mkdtemp(prefix='peddc_')
    path = os.path.join(d, f'dcmod_{tag}.py')
    open(path, 'w').write(PRELUDE + src)
    spec = importlib.util.spec_from_file_location(f'dcmod_{tag}', path)
    mod = importlib.util.module_from_spec(spec)
    sys.modules[spec.name] = mod
    try:
        spec.loader.exec_module(mod)
    except BaseException:
        shutil.rmtree(d, ignore_errors=True)
        del sys.modules[spec.name]
        raise
    return mod, d


def unload(mod, d):
    shutil.rmtree(d, ignore_errors=True)
    sys.modules.pop(mod.__name__, None)


def _posts(mod):
    return len([e for e in mod.J if e[0] == 'post'])


def _inner(mod):
    return any(e[0] == 'inner-accepted' for e in mod.J)


def field_terms(cls):
    return [(f.name, K.reflect_ann(f.type)) for f in dataclasses.fields(cls)]


def default_terms(cls):
    """{field name: term of the value the field takes when the constructor is not given one}"""
    out = {}
    for f in dataclasses.fields(cls):
        if f.default is not dataclasses.MISSING:
            t = K.reflect_val(f.default)
        elif f.default_factory is not dataclasses.MISSING:
            t = K.reflect_val(f.default_factory())
        else:
            continue
        if t is not None and f.init:
            out[f.name] = t
    return out


def gen_ops(r, fterms, defaults=None, positional=False):
    """abstract operations on one class: each is (path, values per field at validation time, how to reach them)"""
    ops = []
    defaults = defaults or {}
    def good():
        out = {}
        for n, t in fterms:
            want = t if t[0] not in ('bare', 'special') else K.cls_term(int)
            try:
                out[n] = K.canon_term(K.gen_val_for(r, want, 2))
            except TypeError:
                out[n] = K.lit(0)
            if K.has_iterator(out[n]):
                out[n] = K.lit(0)               # one-shot iterators cannot be deep-copied: not a dataclass field value here
        return out
    def corrupt(v):
        if v[0] == 'inst' and K.CLASSES[v[1]] is K.SelfB and r.random() < 0.5:
            return ['inst', K.IDX[K.SelfA]]             # an instance of the base class is no instance of the subclass
        try:
            c = K.canon_term(K.corrupt_term(r, v))
        except TypeError:
            return K.lit(None)
        return K.lit(None) if K.has_iterator(c) else c
    base = good()
    names = [n for n, _ in fterms]
    ops.append({'path': 'constructor', 'vals': dict(base), 'recipe': ['ctor']})
    if defaults:                                    # omitted fields take their (conforming or non-conforming) defaults
        for omit in ([list(defaults)] + ([[r.choice(list(defaults))]] if len(defaults) > 1 else [])):
            v = dict(base)
            for n in omit: v[n] = defaults[n]
            ops.append({'path': 'constructor', 'vals': v, 'recipe': ['ctor'], 'omit': omit})
    if positional:                                  # kw_only=False: the values are handed over positionally, in field order
        ops.append({'path': 'constructor', 'vals': dict(base), 'recipe': ['ctor'], 'positional': True})
        bn = r.choice(names); v = dict(base); v[bn] = corrupt(base[bn])
        ops.append({'path': 'constructor', 'vals': v, 'recipe': ['ctor'], 'positional': True})
    for n in names:                                 # one bad field at each position, constructor
        v = dict(base); v[n] = corrupt(base[n])
        ops.append({'path': 'constructor', 'vals': v, 'recipe': ['ctor']})
    n = r.choice(names)                             # copy_with / deep_copy_with replacing one field (good or bad)
    for path in ('copy_with', 'deep_copy_with'):
        for bad in (False, True):
            nv = corrupt(base[n]) if bad else good()[n]
            v = dict(base); v[n] = nv
            ops.append({'path': path, 'vals': v, 'base': dict(base), 'recipe': ['copy', n]})
    # in-place mutation of a mutable field, then deep_copy_with() / copy_with() without keywords, and validate_types()
    mut = [m for m in names if base[m][0] == 'coll' and K.CLASSES[base[m][1]] is list]
    if mut:
        m = r.choice(mut)
        v = dict(base); v[m] = [base[m][0], base[m][1], base[m][2] + [["inst", K.IDX[K.U]]]]
        for path in ('deep_copy_with', 'copy_with', 'validate'):
            ops.append({'path': path, 'vals': v, 'base': dict(base), 'recipe': ['mutate', m]})
    # validate_types() on a valid instance and after object.__setattr__ of one field; copy_with() / deep_copy_with() without keywords on
    # an untouched instance (the copy EQUALS the original, which is still alive in the calling frame)
    ops.append({'path': 'validate', 'vals': dict(base), 'base': dict(base), 'recipe': ['plain']})
    for path in ('copy_with', 'deep_copy_with'):
        ops.append({'path': path, 'vals': dict(base), 'base': dict(base), 'recipe': ['plain']})
    n2 = r.choice(names)
    v = dict(base); v[n2] = corrupt(base[n2])
    ops.append({'path': 'validate', 'vals': v, 'base': dict(base), 'recipe': ['setattr', n2]})
    return ops


def execute(mod, clsname, op, post):
    """run one operation on the real class; returns {'out', 'journal', 'trace'}: `trace` = the statements of cls_deco_frozen_dataclass.py /
    get_context.py executed by the operation itself (after the set-up), None when they were not recorded"""
    tr = FT.tracer()
    mod._mark = tr.begin
    try:
        out = _execute(mod, clsname, op, post, tr)
    finally:
        trace = tr.end()
    # a user __post_init__ that builds further type-safe instances nests their traces into this one: not compared
    out['trace'] = None if (post == 'nested' or out['out'].startswith('SETUP')) else trace
    return out


def _execute(mod, clsname, op, post, tr):
    from pedantic.exceptions import PedanticTypeCheckException, PedanticException
    del mod.J[:]
    if hasattr(mod, 'scope'):
        return execute_local(mod, op)
    cls = getattr(mod, clsname)
    # decoys: the frame that calls the constructor holds unrelated objects under the names the field annotations refer to
    # (forward references must resolve in the module that defines the dataclass, not in whoever happens to call it)
    P = C1 = C2 = G = U = MI = SelfA = SelfB = str                                             # noqa: F841

    def leaf(c):
        """an instance of the generated dataclass itself, as a field value (made without running __init__ / __post_init__)"""
        o = object.__new__(c)
        for f in dataclasses.fields(c):
            object.__setattr__(o, f.name, None)
        return o
    K.INST_FACTORY.clear()
    for ph in (K.SelfA, K.SelfB):
        if hasattr(mod, ph.__name__):
            K.INST_FACTORY[ph] = (lambda c: lambda: leaf(c))(getattr(mod, ph.__name__))

    def build(vals):
        return {n: K.build_val(t) for n, t in vals.items()}

    def classify(e):
        if isinstance(e, PedanticTypeCheckException): return 'PED:TypeCheck'
        if isinstance(e, PedanticException): return 'PED:' + type(e).__name__
        if type(e).__name__ == 'PostErr': return 'POST_EXC'
        return 'ESC:' + type(e).__name__
    try:
        recipe = op['recipe']
        if recipe[0] == 'ctor':
            given = {n: v for n, v in build(op['vals']).items() if n not in op.get('omit', ())}
            tr.begin()
            obj = cls(*given.values()) if op.get('positional') else cls(**given)
            return {'out': 'INSTANCE' if type(obj) is cls else 'OTHER', 'journal': _posts(mod), 'inner': _inner(mod)}
        # an existing instance first (built without validation noise: if that already fails, report it)
        try:
            inst = cls(**build(op['base']))
        except BaseException as e:
            return {'out': 'SETUP:' + classify(e), 'journal': 0}
        del mod.J[:]
        if recipe[0] == 'copy':
            n = recipe[1]
            new = {n: K.build_val(op['vals'][n])}
            tr.begin()
            obj = getattr(inst, op['path'])(**new)
            return {'out': 'INSTANCE' if type(obj) is cls else 'OTHER', 'journal': _posts(mod), 'inner': _inner(mod)}
        if recipe[0] == 'mutate':
            getattr(inst, recipe[1]).append(K.U())
        if recipe[0] == 'setattr':
            object.__setattr__(inst, recipe[1], K.build_val(op['vals'][recipe[1]]))
        tr.begin()
        if op['path'] == 'validate':
            inst.validate_types()
            return {'out': 'INSTANCE', 'journal': _posts(mod), 'inner': _inner(mod)}
        obj = getattr(inst, op['path'])()
        return {'out': 'INSTANCE' if type(obj) is cls else 'OTHER', 'journal': _posts(mod), 'inner': _inner(mod)}
    except BaseException as e:
        return {'out': classify(e), 'journal': _posts(mod), 'inner': _inner(mod)}
    finally:
        K.INST_FACTORY.clear()


def _leaf(c):
    if not dataclasses.is_dataclass(c):
        return c()
    o = object.__new__(c)
    for f in dataclasses.fields(c):
        object.__setattr__(o, f.name, None)
    return o


def execute_local(mod, op):
    """the operation is executed by the generated function `scope`, whose frame holds the classes"""
    from pedantic.exceptions import PedanticTypeCheckException, PedanticException

    def build(real):
        K.INST_FACTORY.clear()
        for name, c in real.items():
            K.INST_FACTORY[getattr(K, name)] = (lambda c: lambda: _leaf(c))(c)
        return K.build_val
    try:
        return {'out': mod.scope(op, build), 'journal': _posts(mod), 'inner': _inner(mod)}
    except BaseException as e:
        if type(e).__name__ == 'SetupFailed':
            e = e.args[0]; pre = 'SETUP:'; j = 0
        else:
            pre = ''; j = _posts(mod)
        if isinstance(e, PedanticTypeCheckException): k = 'PED:TypeCheck'
        elif isinstance(e, PedanticException): k = 'PED:' + type(e).__name__
        elif type(e).__name__ == 'PostErr': k = 'POST_EXC'
        else: k = 'ESC:' + type(e).__name__
        return {'out': pre + k, 'journal': j, 'inner': _inner(mod)}
    finally:
        K.INST_FACTORY.clear()


def case_env(mod):
    """the class table of the case: the module's globals bind the names of the generated classes"""
    env = K.env_json()
    extra = [[K.nid(ph.__name__), K.IDX[ph]] for ph in (K.SelfA, K.SelfB) if hasattr(mod, ph.__name__)]
    return env if not extra else {**env, 'ctx': env['ctx'] + extra}


def local_env(names, clsname):
    """classes defined inside `scope`: the context has the module's names and the class of the instance; the rest are locals of the caller"""
    env = K.env_json()
    ph = getattr(K, clsname)
    locs = [[K.nid(n), K.IDX[getattr(K, n)]] for n in ('Loc', 'SelfA', 'SelfB') if n in names] + [[K.nid('C1'), K.IDX[str]]]
    return {**env, 'ctx': env['ctx'] + [[K.nid(clsname), K.IDX[ph]]]}, locs


def hook_chain(C, nall):
    """the __post_init__ chain of the class under test, for the statement-level model (Drv/FrozenIR.lean: hookOf): the user's own hook (or the
    no-op default) innermost; around it one validating wrapper per type-safe decorated class that found it - a decorated subclass without
    a hook of its own wraps the wrapper it inherits from its decorated base; every wrapper calls `self.validate_types()`, the method of the
    instance's own class, so each of them validates all fields"""
    u = 'noop' if C['post'] == 'absent' else (['user', 0] if C['post'] == 'raises' else ['user'])
    if not C['ts']:
        return u
    if C.get('levels') == 2:
        return ['w', nall, ['w', nall, u]]
    return ['w', nall, u]


def build_cases(rng, n, tag):
    cases = []
    for i in range(n):
        C = gen_class(rng, i)
        try:
            mod, d = load(C['src'], f'{tag}{i}_{rng.randrange(10**6)}')
        except BaseException:
            continue                                # not a valid dataclass definition (e.g. mutable default): not this property
        try:
            extra = {}
            init = ['__init__', '', False, True]
            wrapper = ['new_post_init', 'new_post_init', False, True]
            chains = [[wrapper, init], [init]] if C.get('levels') == 2 else [[init]]
            if C.get('local'):
                try:
                    names = mod.scope(None, None)
                except TypeError:
                    continue                        # not a valid dataclass definition (field order with kw_only=False)
                cls = names[C['cls']]
                env, locs = local_env(names, C['cls'])
                extra = {'locals': locs, 'caller': 'scope', 'chains': chains}
                present = [n for n in ('Loc', 'SelfA', 'SelfB') if n in names]
            else:
                cls = getattr(mod, C['cls'])
                env = case_env(mod)
                present = [ph.__name__ for ph in (K.SelfA, K.SelfB) if hasattr(mod, ph.__name__)]
            fterms = field_terms(cls)
            K.EXTRA_CTX.clear()
            K.EXTRA_CTX.update({n: getattr(K, n) for n in present})
            try:
                ops = gen_ops(rng, fterms, default_terms(cls), positional=not C.get('kwonly', True))
            finally:
                K.EXTRA_CTX.clear()
            hook = hook_chain(C, len(fterms))
            for op in ops:
                impl = execute(mod, C['cls'], op, C['post'])
                post = ['raises', 0] if C['post'] == 'raises' else ('runs' if C['post'] == 'nested' else C['post'])
                if op['path'] in ('copy_with', 'deep_copy_with'):
                    # what the receiver holds when the method is called, and the keywords: the statement-level model computes the copy's values
                    held = op['vals'] if op['recipe'][0] == 'mutate' else op['base']
                    extra2 = {'cur': [[K.nid(nm), t, held[nm]] for nm, t in fterms],
                              'kw': [[K.nid(op['recipe'][1]), op['vals'][op['recipe'][1]]]] if op['recipe'][0] == 'copy' else []}
                else:
                    extra2 = {}
                cases.append({'m': 'typesafe',
                              'c': {'env': env, 'fields': [[K.nid(nm), t, op['vals'][nm]] for nm, t in fterms], 'typeSafe': C['ts'],
                                    'post': post, 'path': op['path'], 'hook': hook, **extra, **extra2},
                              'x': {'src': C['src'], 'cls': C['cls'], 'op': op, 'postk': C['post'], '_impl': impl}})
        finally:
            unload(mod, d)
    return cases


def cases(rng, tier):
    return build_cases(rng, 450 if tier == 'quick' else 5000, 'q')


def search(rng, tier, near):
    return build_cases(rng, 1500, 's')


def run_impl(cases):
    out = []
    for k, c in enumerate(cases):
        x = c['x']
        if '_impl' in x:
            out.append(x.pop('_impl')); continue
        mod, d = load(x['src'], f'r{k}_{os.getpid()}')
        try:
            out.append(execute(mod, x['cls'], x['op'], x['postk']))
        finally:
            unload(mod, d)
    return out


FINDINGS = {'namedtuple': 'namedtupleFieldValue'}


def judge(case, impl, model):
    assert model['wf'], 'harness bug: field value not well-formed'
    io = impl['out']
    if io.startswith('SETUP'):
        return {'corr': True, 'pfail': None, 'nontrivial': False, 'tag': 'setup-failed'}
    mo = model['outcome']
    mc = 'POST_EXC' if mo.startswith('POST_EXC') else mo
    ic = 'ESC' if io.startswith('ESC') else io
    ts = case['c']['typeSafe']
    path = case['c']['path']
    if path == 'validate' and not ts:
        pass                                        # validate_types() is available and checks also without type_safe
    mj = len(model['journal'])
    corr = ic == mc and (path == 'validate' or impl['journal'] == mj)
    # the statement-level model (Frozen IR): same outcome, same number of user-hook runs, and the path it took is the path the library took
    ir, why_ir = model.get('ir'), ''
    if ir:
        iro = ir.get('outcome')
        irc = None if iro is None else ('POST_EXC' if iro.startswith('POST_EXC') else iro)
        if irc != ic or (path != 'validate' and ir.get('journal') != impl['journal']):
            why_ir = f"the interpreted statement programs give {iro} (user hook ran {ir.get('journal')} times), the implementation {io} ({impl['journal']})"
        elif ir.get('fieldsAgree') is False:
            why_ir = 'the field values the translated copy method computes (receiver values overridden by the keywords) are not the values the harness says the copy holds'
        else:
            why_ir = FT.compare(impl.get('trace'), ir.get('path')) or ''
        if why_ir:
            corr = False
    pfail = None
    raises = case['x']['postk'] == 'raises' and path != 'validate'      # the user's __post_init__ raises: its exception is the outcome
    if model['claimed'] and (ts or path == 'validate') and not raises:
        if model['spec'] and ic != 'INSTANCE':
            pfail = f'{io} although every field value conforms ({path}) - {describe(case)}'
        elif not model['spec'] and ic == 'INSTANCE':
            pfail = f'an instance was obtained / validate_types() passed although a field value does not conform ({path}) - {describe(case)}'
        elif not model['spec'] and ic != 'PED:TypeCheck':
            pfail = f'{io} instead of PedanticTypeCheckException ({path}) - {describe(case)}'
    if pfail is None and impl.get('inner'):
        pfail = f"Inner(v='bad') built inside the user __post_init__ was handed out although its field does not conform ({path}) - {describe(case)}"
    if pfail is None and ts and path != 'validate' and case['x']['postk'] != 'absent' and impl['journal'] != 1:
        pfail = f'the user __post_init__ ran {impl["journal"]} times ({path}) - {describe(case)}'
    finding = None
    if pfail and corr:
        for reg in ('namedtuple', 'emptyFixedTuple'):
            if reg in model['regions']:
                finding = 'inheritedCheckerRegion'
    nf = len(case['c']['fields'])
    return {'corr': corr, 'pfail': pfail, 'finding': finding, 'nontrivial': (not model['spec']) or nf >= 2,
            'tag': f"{path}/{case['x']['op']['recipe'][0]}/ts={int(ts)}/spec={int(model['spec'])}/{ic}",
            'why': '' if corr else (why_ir or f'implementation ({io}, post ran {impl["journal"]}) vs model ({mo}, {mj})')}


def extra_coverage(results):
    return FT.coverage([(i.get('trace'), (m.get('ir') or {}).get('path'), j.get('tag', '')) for (c, i, m, j) in results])


def describe(case):
    x = case['x']
    return f"{x['src'].strip().splitlines()} op={json.dumps(x['op']['recipe'])} vals={json.dumps(x['op']['vals'])[:300]}"


export_state, import_state = K.export_state, K.import_state      # the name table travels with replays / amplified runs
