"""C06 — incomplete annotations are always rejected, independent of the value.
Checker level: every bare generic x a probe set of values, exhaustively, against the Lean model (`bare_rejects_every_value`).
Call level: generated @pedantic functions with a missing / bare annotation at each position (see _call_common)."""
import json
import _checker_common as K
import _call_common as C
import _call_reentrant as R

RULE = ('exhaustive: the 17 bare generics (list, dict, set, frozenset, tuple, type, typing.List, Dict, Set, FrozenSet, Tuple, Type, Callable, '
        'Iterable, Sequence, Union, Optional) x 40 probe values (None, empty and non-empty instances of every origin, subclasses, classes, '
        'NamedTuple instances, one-shot iterators, literals) at the checker level; call level: every parameter kind / return position x '
        'defaulted or not x probe values. non-trivial = every case (the claim is about all values)')
EXHAUSTIVE = {'quick': True, 'thorough': True}
ASSUMPTIONS = ['values whose own __eq__ raises are excluded']
TRUSTED = []


def probes():
    I = K.IDX
    lit = K.lit
    import collections
    vs = [lit(None), lit(0), lit(''), lit('ab'), lit(True), lit(1.5), lit(b''),
          ["coll", I[list], []], ["coll", I[list], [lit(1)]], ["coll", I[K.L], [lit(1)]],
          ["tup", I[tuple], []], ["tup", I[tuple], [lit(1)]], ["tup", I[K.TS], [lit(1)]],
          ["mapping", I[dict], []], ["mapping", I[dict], [[lit('a'), lit(1)]]], ["mapping", I[collections.defaultdict], []],
          ["coll", I[set], []], ["coll", I[set], [lit(1)]], ["coll", I[frozenset], []], ["coll", I[frozenset], [lit(1)]],
          ["coll", I[collections.deque], []], ["coll", I[collections.deque], [lit(1)]],
          ["clsobj", I[int]], ["clsobj", I[K.P]], ["clsobj", I[list]], ["clsobj", I[type]],
          ["inst", I[K.U]], ["inst", I[K.P]],
          ["ntup", I[K.NT1], [K.nid('a'), K.nid('b')], [lit(1), lit('a')]], ["ntup", I[K.NT3], [K.nid('x')], [lit(1)]],
          ["iterator", I[K.GeneratorType], []], ["iterator", I[K.ListIterator], [lit(1)]],
          ["tup", I[tuple], [["coll", I[list], []], lit(None)]], ["coll", I[list], [["coll", I[list], []]]],
          ["mapping", I[dict], [[lit(1), ["coll", I[list], []]]]], lit(-5), lit('P'), lit(False), lit(b'x'), lit(2)]
    return [K.canon_term(v) for v in vs]


def cases(rng, tier):
    out = []
    for name in K.BARE:
        for v in probes():
            out.append(K.mk_case(["bare", name], v, kind='bare-probe'))
    # call level: generated @pedantic programs where ~35% of the annotations (parameters of every kind, return) are missing or bare
    n = 700 if tier == 'quick' else 6000
    out += C.build_cases(rng, n, calls_per=3, profile='incomplete', style='kw', tag='c06a')
    out += C.build_cases(rng, n // 4, calls_per=2, profile='incomplete', style=None, tag='c06b')
    out += C.scenario_cases(rng, n // 8, tag='c06sc')
    out += R.reentrant_cases(rng, n // 6, tag='c06re')      # overlapping calls (SIG_TEMPLATES has incomplete signatures for the inner callable)
    return out


def search(rng, tier, near):
    return C.build_cases(rng, 1500, calls_per=3, profile='incomplete', style='kw', tag='c06s')


def run_impl(cases):
    out = []
    for c in cases:
        out.extend(R.run_impl([c]) if c['m'] == 'calllayer' else K.run_impl_checker([c]))
    return out


extra_coverage = C.T.with_trace_coverage()      # observed branch traces of the call layer (_calltrace_common)


def judge_call(case, impl, model):
    corr, why = C.correspondence(case, impl, model)
    s = model['spec']
    out = C.norm_out(impl['out'])
    pedantic = case['c']['fn']['mode'] == 'pedantic'
    pfail = None
    inc = pedantic and (s['incompleteParam'] or s['incompleteReturn'])
    if inc:
        if out in ('RET', 'RETGEN', 'RET:other'):
            pfail = f'a value was handed back although an annotation is missing / bare - {C.describe_case(case)}'
        elif s['incompleteParam'] and impl['ran']:
            pfail = f'the body ran although a parameter annotation is missing / bare - {C.describe_case(case)}'
        elif s['keywordCall'] and C.twin_accepts(impl) and out != 'PED:TypeCheck' and not (out == 'BODY_EXC' and not s['incompleteParam']):
            pfail = f'{impl["out"]} instead of PedanticTypeCheckException - {C.describe_case(case)}'
    finding = None
    # (former region bodyMentionsStaticmethodIncomplete: repaired by e6a11f4)
    return {'corr': corr, 'pfail': pfail, 'finding': finding, 'nontrivial': bool(inc),
            'tag': f"call/{case['x']['kind']}/inc={int(s['incompleteParam'])}{int(s['incompleteReturn'])}/{out}", 'why': why}


def judge(case, impl, model):
    if case['m'] == 'calllayer':
        return judge_call(case, impl, model)
    io = impl['out']
    if io.startswith('unbuildable'):
        return {'corr': True, 'pfail': None, 'nontrivial': False, 'tag': 'unbuildable'}
    ic, mc = K.verdict_class(io), K.verdict_class(model['out'])
    corr = ic == mc
    pfail = None
    if ic != 'typecheck':
        pfail = f'bare generic {case["c"]["ann"][1]}: outcome {io} instead of PedanticTypeCheckException for value {json.dumps(case["c"]["val"])}'
    return {'corr': corr, 'pfail': pfail, 'finding': None, 'nontrivial': True, 'tag': f"{case['c']['ann'][1]}/{io.split(':')[0]}",
            'why': '' if corr else f'implementation {io} vs model {model["out"]}'}


def twins(case):
    """amplified run: primed twins of call-layer cases (one def executed twice with other annotations, number twins: _call_common.twins)"""
    return C.twins(case)


export_state, import_state = K.export_state, K.import_state      # the name table travels with replays / amplified runs


same_outcome = C.same_outcome      # amplified run: `trace` / `world` are diagnostics of sampled executions
