"""C04 — transparency of @pedantic for conforming keyword calls: every generated program exists twice, decorated and as an
undecorated twin executed for real on the same argument objects; body text is varied with needles."""
import _call_common as C
import _gen_common as G
import C07 as T
import _call_reentrant as R

RULE = ('generated programs as in C05, each with an undecorated twin (same source without the pedantic decorators) executed on the same objects; '
        'conforming keyword calls (and corrupted ones for the correspondence); compared: outcome class, exactly-one body execution, per-name '
        'identity of the objects the body received (for objects whose identity is meaningful in CPython), identity of the result / exception '
        'object; one-shot iterators and generators passed for Iterable[...] parameters; needles (*args, @staticmethod, @name.setter, @pedantic, '
        'an e-mail address, **kwargs) in comments, docstrings and string literals; functions and methods with TypeVars whose BODIES CALL other decorated callables (recursion, same instance, other instances, plain functions; the call trees of C07): a call whose values are compatible must be accepted whatever calls overlap with it. non-trivial = conforming keyword call')
EXHAUSTIVE = {'quick': False, 'thorough': False}
ASSUMPTIONS = ['programs are real files (inspect.getsource works)']
TRUSTED = ['CPython inspect / functools.wraps semantics']


def cases(rng, tier):
    n = 1200 if tier == 'quick' else 12000
    return C.build_cases(rng, n, calls_per=3, style='kw', tag='c04a') + C.build_cases(rng, n // 4, calls_per=2, style=None, tag='c04b') \
        + C.scenario_cases(rng, n // 8, style='kw', tag='c04sc') \
        + C.context_clash_cases(rng, 24 if tier == 'quick' else 96) \
        + C.unprintable_cases(rng, 16 if tier == 'quick' else 64) + C.receiver_cases(rng, 12 if tier == 'quick' else 48) \
        + C.scenario_cases(rng, n // 8, style='kw', tag='c04sc') + R.reentrant_cases(rng, n // 6, style='kw', tag='c04re') + R.wrapsof_cases(rng, n // 12, style='kw', tag='c04wo') + R.kindchange_cases(rng, n // 12, tag='c04kc') \
        + G.gen_cases(rng, tier) \
        + tv_tree_cases(rng, tier)         # TypeVars + overlapping (nested) calls: compatible values stay accepted


def tv_tree_cases(rng, tier):
    quick = tier == 'quick'
    out = T.nested_directed(rng, quick)
    cat = T.CATALOGUE
    small = [cat[n] for n in ('m_T', 'm_S', 'm_Sret', 'm_ret', 'm_SS', 'm_TT', 'm_TS', 'm_LT', 'm_OT', 'm_retonly', 'm_int', 'd_SS', 'd_TT', 'd_TTret')] + [T.WARM]
    pool = T.shape_pool(rng, small, (16, 10, 6) if quick else (100, 60, 30))
    for _ in range(500 if quick else 20000):
        insts, steps = T.rand_nested_history(rng, pool, small)
        out.append(T.mk_case(insts, steps, 'nesthist'))
    return out


def search(rng, tier, near):
    return C.build_cases(rng, 900, calls_per=3, style='kw', tag='c04s') + G.search_cases(rng, tier, near) + tv_tree_cases(rng, 'quick')


def run_impl(cases):
    tv = [i for i, c in enumerate(cases) if c.get('m') == 'typevars']
    rest = [i for i, c in enumerate(cases) if c.get('m') != 'typevars']
    out = [None] * len(cases)
    for i, r in zip(rest, G.run_impl_mixed([cases[i] for i in rest], R.run_impl)):
        out[i] = r
    if tv:
        for i, r in zip(tv, T.run_impl([cases[i] for i in tv])):
            out[i] = r
    return out


def judge_tv_transparent(case, impl, model):
    """the transparency side of the TypeVar call trees: a call (outermost or nested) whose values the specification accepts must end
    in a normal return, in this tree as when it is made alone; everything else about TypeVars belongs to C07"""
    j = T.judge(case, impl, model)
    outs, sp = impl['outs'], model['spec']
    in_ = impl.get('nested') or [[] for _ in outs]
    ns = model.get('nspec') or [[] for _ in outs]
    nr = model.get('nregions') or [[] for _ in outs]
    pfail = None
    for k, (o, v) in enumerate(zip(outs, sp)):
        if v == 'accept' and o != 'ok' and not model['regions'][k]:
            pfail = f'{T.describe(case, k)}: {o} although every value is compatible (conforming keyword call)'; break
        for jx, o2 in enumerate(in_[k]):
            if o2 is not None and jx < len(ns[k]) and ns[k][jx] == 'accept' and o2 != 'ok' and not (nr[k][jx] if jx < len(nr[k]) else []):
                pfail = f'{T.describe(case, k, jx)}: {o2} although every value is compatible (conforming keyword call made from another call)'; break
        if pfail:
            break
    return {'corr': j['corr'], 'pfail': pfail, 'finding': None, 'nontrivial': any(v == 'accept' for v in sp), 'tag': 'tvtree/' + j['tag'], 'why': j['why']}


extra_coverage = C.T.with_trace_coverage(G.coverage)      # + observed branch traces of the call layer (_calltrace_common)


def judge(case, impl, model):
    if case['m'] == G.MODEL:
        return G.judge_transparent(case, impl, model)
    if case['m'] == 'typevars':
        return judge_tv_transparent(case, impl, model)
    corr, why = C.correspondence(case, impl, model)
    s = model['spec']
    out = C.norm_out(impl['out'])
    pedantic = case['c']['fn']['mode'] == 'pedantic'
    tw = impl['twin']
    pfail = None
    claimed = pedantic and s['allConforming'] and s['keywordCall'] and C.twin_accepts(impl) and case['c']['fn']['flavour'] != 'generator' \
        and 'nonPlain' not in model['regions'] and 'fwdUnresolved' not in model['regions'] and not s['incompleteParam'] and not s['incompleteReturn']
    if claimed:
        if out != tw['out']:
            pfail = f'decorated call ends in {impl["out"]}, the undecorated twin in {tw["out"]} - {C.describe_case(case)}'
        elif impl['ran'] != 1:
            pfail = f'the body ran {impl["ran"]} times - {C.describe_case(case)}'
        elif impl['binding'] != tw['binding']:
            pfail = f'the body received other objects than in the undecorated twin: {impl["binding"]} vs {tw["binding"]} - {C.describe_case(case)}'
    # no consumption (every call, conforming or not): a one-shot iterator argument still holds all its items after the call -
    # the scripted body never iterates, and the model never iterates an iterator (theorem checking_never_iterates_an_iterator)
    want = C.iterator_items(case)
    if pedantic and 'remaining' in impl and impl['remaining'] != want:
        corr = False
        why = (why + '; ' if why else '') + f'one-shot iterator arguments consumed: items left {impl["remaining"]}, built with {want}'
        if impl['ran'] >= 1 and not pfail and impl['twin'].get('remaining') == want:     # the body saw a consumed iterator
            pfail = f'checking consumed a one-shot iterator argument: items left {impl["remaining"]}, built with {want} (undecorated twin: untouched) - {C.describe_case(case)}'
    finding = C.shared_finding(model) if pfail and corr else None       # unprintableValueEscapes / receiverByKeywordIndexError / receiverNotNamedSelf
    # (the former region bodyMentionsStaticmethod - a body / comment mentioning @staticmethod - was repaired by e6a11f4: no finding is
    # attributed any more; a failure in an `untruthful` / `clazzFails` case is an ordinary violation)
    return {'corr': corr, 'pfail': pfail, 'finding': finding, 'nontrivial': bool(claimed),
            'tag': f"{case['x']['kind']}/{case['x']['flavour']}/{case['x']['needle']}/conf={int(s['allConforming'])}/{out}", 'why': why}


def twins(case):
    """amplified run: primed twins of call-layer cases (one def executed twice with other annotations, number twins: _call_common.twins)"""
    return C.twins(case)


import _checker_common as _K
export_state, import_state = _K.export_state, _K.import_state      # the name table travels with replays / amplified runs


same_outcome = C.same_outcome      # amplified run: `trace` / `world` are diagnostics of sampled executions
