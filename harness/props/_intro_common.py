"""Checked tie between the interpreted translation of check_types.py (Lean: Model/CheckerIR.lean over Gen/IsInstanceIR.lean)
and the running code, used by C01 / C02 / C08 on every checker case of the annotation vocabulary.

For one case (annotation term, value term) the Lean driver returns (`"ir": true` in the case)
  * `intros`: for every node of the annotation `_is_instance` may be called on - with the path that leads from the top-level
    object to it ("conv" = convert_to_typing_types, ["arg", i] = get_type_arguments(..)[i], ["field", i] = i-th value of
    `__annotations__`) - the introspection record `intro` (DESIGN appendix F as a Lean function) and the value of every `if`
    test of `_is_instance` / `_check_type` as the interpreter evaluates it (`guards`: [[statement id, true|false|null=raises]]);
  * `irTrace`: the statement every activation of `_check_type`, `_is_instance`, `_instancecheck_*`, `_check_union` is left from,
    in call order, as the interpreter ran the generated programs.

This module
  (a) navigates the *concretised* annotation object along each path with the library's own helpers and evaluates the real
      predicates (`_get_name`, `__module__`, `_is_generic`, `get_base_generic`, `get_type_arguments`, `_is_forward_ref`,
      `_is_type_new_type`, UnionType / GenericAlias tests, `_has_required_type_arguments`, table memberships, `__annotations__`,
      `convert_to_typing_types`, …) and - in the namespace of check_types.py - the source text of every `if` test (as handed over
      by the translator, locals replaced by their definitions): both must equal what Lean says;
  (b) observes the real run with `sys.monitoring` (PY_START / PY_RETURN on the code objects of the translated functions, PY_UNWIND
      for exceptions): the line an activation is left from is mapped to a statement id through the table the translator computes
      from the *current* source (`gen.isinstance_ir.table`), and the list must equal `irTrace`.

A disagreement is a correspondence break (`corr = False` with a `why`), never a property violation by itself.
"""
import os, sys, json, types, typing, collections, collections.abc
import _checker_common as K

REPO = os.environ.get('VERIF_REPO', '/repo')
TRACED = ['_check_type', '_is_instance', '_instancecheck_iterable', '_instancecheck_mapping', '_instancecheck_items_view',
          '_instancecheck_tuple', '_instancecheck_union', '_check_union', '_instancecheck_literal', '_instancecheck_type']
_TIE = None


class Tie:
    def __init__(self):
        import extract
        from gen import isinstance_ir as IR
        import pedantic.type_checking_logic.check_types as CT
        self.CT = CT
        self.skip = None
        self.table = None
        try:
            self.table = IR.table(REPO)
        except extract.Skip as e:
            self.skip = f'translator skipped: {e}'
        except Exception as e:            # a tree the translator cannot even parse
            self.skip = f'translator failed: {type(e).__name__}: {e}'
        self.tests = {}
        self.stmts = {}
        self.codes = {}
        self.tool = None
        if self.table is not None:
            for fn, info in self.table.items():
                for sid, (kind, a, b) in info['stmts'].items():
                    self.stmts[int(sid)] = (fn, kind, a, b)
                for sid, t in info['tests'].items():
                    if t is not None:
                        self.tests[int(sid)] = compile(t, f'<test {sid}>', 'eval')
            for fn in TRACED:
                f = getattr(CT, fn, None)
                if f is None or fn not in self.table:
                    self.skip = f'function {fn} missing'
                    break
                code = f.__code__
                linemap = {}
                for sid, (kind, a, b) in sorted(self.table[fn]['stmts'].items(), key=lambda kv: kv[1][0] != 'if'):
                    for l in range(a, b + 1):              # `if` headers first, so that a statement on the same line wins
                        linemap[l] = int(sid)
                offs = {}
                for start, end, line in code.co_lines():
                    if line is not None:
                        for o in range(start, end, 2):
                            offs[o] = line
                self.codes[code] = (fn, linemap, offs)
        import re
        self.typing_consts = sorted({c for info in (self.table or {}).values() for t in info['tests'].values() if t
                                     for c in re.findall(r'type_ == typing\.(\w+)', t)})
        self.name_keys = set(CT.NUM_OF_REQUIRED_TYPE_ARGS_EXACT) | set(CT.NUM_OF_REQUIRED_TYPE_ARGS_MIN) | set(CT._SPECIAL_INSTANCE_CHECKERS)
        self.newtype_qualname = typing.NewType('name', int).__qualname__

    # ------------------------------------------------------------ (b) observed statement traces
    def _id(self, code, offset):
        fn, linemap, offs = self.codes[code]
        line = offs.get(offset)
        if line is None:                                   # offsets between instruction starts: take the nearest one before
            line = offs.get(max((o for o in offs if o <= offset), default=-1))
        return linemap.get(line, -(line or 0))

    def trace_run(self, fn, *args):
        """run fn(*args) and return (its result, [statement id each traced activation left from, in call order])"""
        mon = sys.monitoring
        E = mon.events
        tool = next((t for t in (mon.PROFILER_ID, 3, 4, mon.OPTIMIZER_ID) if mon.get_tool(t) is None), None)
        if tool is None:                                   # every tool id is taken (a profiler / coverage run): do not observe
            return fn(*args), None
        out, stack, raised = [], [], {}

        def on_start(code, offset):
            stack.append(len(out)); out.append(None)

        def on_return(code, offset, _):
            if stack:
                out[stack.pop()] = self._id(code, offset)

        def on_raise(code, offset, _):
            # the statement an exception was raised in / passed through last (the implicit clean-up of `except … as ex` that runs
            # before the frame is left belongs to no statement)
            if code in self.codes and stack:
                i = self._id(code, offset)
                if i >= 0:
                    raised[stack[-1]] = i

        def on_unwind(code, offset, _):
            if code in self.codes and stack:
                slot = stack.pop()
                out[slot] = raised.get(slot, self._id(code, offset))

        mon.use_tool_id(tool, 'pedverif-ir-tie')
        try:
            mon.register_callback(tool, E.PY_START, on_start)
            mon.register_callback(tool, E.PY_RETURN, on_return)
            mon.register_callback(tool, E.PY_UNWIND, on_unwind)
            mon.register_callback(tool, E.RAISE, on_raise)
            mon.register_callback(tool, E.RERAISE, on_raise)
            for code in self.codes:
                mon.set_local_events(tool, code, E.PY_START | E.PY_RETURN)
            mon.set_events(tool, E.PY_UNWIND | E.RAISE | E.RERAISE)
            try:
                res = fn(*args)
            finally:
                mon.set_events(tool, 0)
                for code in self.codes:
                    mon.set_local_events(tool, code, 0)
                for ev in (E.PY_START, E.PY_RETURN, E.PY_UNWIND, E.RAISE, E.RERAISE):
                    mon.register_callback(tool, ev, None)
        finally:
            mon.free_tool_id(tool)
        return res, out

    # ------------------------------------------------------------ (a) real introspection
    def navigate(self, obj, path):
        CT = self.CT
        for step in path:
            if step == 'conv':
                obj = CT.convert_to_typing_types(obj)
            elif step[0] == 'arg':
                obj = CT.get_type_arguments(obj)[step[1]]
            else:
                obj = list(obj.__annotations__.values())[step[1]]
        return obj

    def table_name(self, real, lean):
        """names are compared exactly when Lean knows them; Lean's `null` = 'no key of a name-indexed table'"""
        return real == lean if lean is not None else real not in self.name_keys

    def real_intro(self, t):
        CT = self.CT

        def attempt(f, default=None):
            try:
                return f()
            except Exception:
                return default
        d = {}
        d['isNone'] = t is None
        d['strName'] = K.nid(t) if isinstance(t, str) else None
        d['name'] = attempt(lambda: CT._get_name(t), '!')
        d['nargs'] = attempt(lambda: len(CT.get_type_arguments(t)), '!')
        d['module'] = attempt(lambda: t.__module__ == 'typing')
        d['isGeneric'] = attempt(lambda: CT._is_generic(t), '!')
        d['originName'] = attempt(lambda: CT._get_name(CT.get_base_generic(t) if CT._is_generic(t) else t), '!')
        d['isUnionType'] = isinstance(t, types.UnionType)
        d['eqTyping'] = next((c for c in self.typing_consts if hasattr(typing, c) and attempt(lambda: t == getattr(typing, c), False)), None)
        d['isTypeVar'] = isinstance(t, typing.TypeVar)
        d['originEqTyping'] = 'Unpack' if attempt(lambda: getattr(t, '__origin__', None) == typing.Unpack, False) else None
        o = getattr(t, '__origin__', None) if not isinstance(t, (str, type(None))) else None
        d['originCls'] = K.IDX.get(o) if isinstance(o, type) and attempt(lambda: o in K.IDX, False) else None
        base = attempt(lambda: CT.get_base_generic(t))
        chk = attempt(lambda: CT._ORIGIN_TYPE_CHECKERS.get(base))
        d['originChecker'] = chk.__name__ if chk is not None else None
        sp = attempt(lambda: CT._SPECIAL_INSTANCE_CHECKERS.get(d['originName']))
        d['specialChecker'] = None if sp is None else (sp.__name__ if sp.__name__ != '<lambda>' else ('const_true' if sp(None, None, None, None) is True else 'const_false'))
        d['isFwdRef'] = isinstance(t, typing.ForwardRef)
        d['fwdName'] = K.nid(t.__forward_arg__) if d['isFwdRef'] else None
        d['isNewTypeInst'] = type(t) == typing.NewType
        d['supertype'] = K.IDX.get(t.__supertype__) if d['isNewTypeInst'] else None
        d['qualnameIsNewType'] = attempt(lambda: t.__qualname__ == self.newtype_qualname)
        d['hasFieldTypes'] = hasattr(t, '_field_types')
        d['annotations'] = [K.nid(k) for k in t.__annotations__] if hasattr(t, '__annotations__') else None
        d['builtin'] = next((c.__name__ for c in (list, dict, set, frozenset, tuple, type) if t is c), None)
        d['isGenericAlias'] = isinstance(t, types.GenericAlias)
        d['convertOk'] = attempt(lambda: (CT.convert_to_typing_types(t), True)[1], False) if d['isGenericAlias'] else None
        d['asClass'] = K.IDX.get(t) if isinstance(t, type) and not d['isGenericAlias'] and attempt(lambda: t in K.IDX, False) else None
        d['isProtocolMeta'] = type(t) == CT._ProtocolMeta
        d['isNTClass'] = isinstance(t, type) and issubclass(t, tuple) and hasattr(t, '_fields')
        d['ellipsis'] = attempt(lambda: Ellipsis in CT.get_type_arguments(t), '!')
        d['requiredOk'] = attempt(lambda: CT._has_required_type_arguments(t), '!')
        d['isForwardRef'] = attempt(lambda: bool(CT._is_forward_ref(t)))
        d['isNewType'] = attempt(lambda: bool(CT._is_type_new_type(t)))
        return d

    ONLY_IF = {'fwdName': 'isFwdRef', 'supertype': 'isNewTypeInst', 'convertOk': 'isGenericAlias'}
    # observations that only one test of the code reads: compared on the nodes where that test can be evaluated (elsewhere they
    # are counterfactual - and some depend on the history of the process: `hasattr(x, '__annotations__')` of a NewType / typing
    # alias object turns True once somebody has read `__annotations__` of its class)
    READ_BY = {'annotations': "hasattr(type_, '__annotations__')", 'hasFieldTypes': "hasattr(type_, '_field_types')",
               'qualnameIsNewType': '_is_type_new_type(type_)', 'isNewType': '_is_type_new_type(type_)', 'isNewTypeInst': '_is_type_new_type(type_)',
               'supertype': '_is_type_new_type(type_)', 'isForwardRef': '_is_forward_ref(type_)', 'isFwdRef': '_is_forward_ref(type_)',
               'fwdName': '_is_forward_ref(type_)', 'originCls': 'type_.__origin__', 'builtin': 'type_ in {',
               'isGenericAlias': 'isinstance(type_, types.GenericAlias)', 'convertOk': 'isinstance(type_, types.GenericAlias)',
               'asClass': 'isinstance(type_, types.GenericAlias)', 'isNTClass': "hasattr(type_, '_fields')"}

    def compare_node(self, node, t, val, ctx):
        """-> list of 'field: lean x / real y' for one node"""
        bad = []
        real = self.real_intro(t)
        reached = [self.table_text(sid) or '' for sid, _ in node['guards']]
        for k, rv in real.items():
            lv = node.get(k)
            if k in self.ONLY_IF and not real[self.ONLY_IF[k]]:
                continue
            if k in self.READ_BY and not any(self.READ_BY[k] in txt for txt in reached):
                continue
            if k == 'asClass' and real['isGenericAlias']:
                continue
            if k in ('name', 'originName'):
                ok = self.table_name(rv, lv)
            else:
                ok = rv == lv
            if not ok:
                bad.append(f'{k}: model {lv!r} / real {rv!r}')
        top = not node['path']
        ns = dict(type_=t, obj=val, type_vars={}, context=ctx)
        n = 0
        for sid, lv in node['guards']:
            code = self.tests.get(sid)
            if code is None:
                continue
            if not top and 'obj' in code.co_names:
                continue                                   # a test on the value: only the top-level node is run on the case's value
            if '__origin__' in code.co_names and 'obj' in code.co_names and isinstance(getattr(t, '__origin__', None), type) \
                    and real['originCls'] is None:
                continue                                   # isinstance against a class outside the class table (collections.abc.Callable)
            try:
                rv = bool(eval(code, self.CT.__dict__, ns))
            except Exception:
                rv = None
            n += 1
            if rv != lv:
                bad.append(f'test {sid} ({self.table_text(sid)}): model {lv!r} / real {rv!r}')
        return bad, n

    def table_text(self, sid):
        for info in self.table.values():
            if str(sid) in info['tests']:
                return info['tests'][str(sid)]
        return None


def tie():
    global _TIE
    if _TIE is None:
        _TIE = Tie()
    return _TIE


def wants(case):
    return case.get('m') == 'checker' and case.get('x', {}).get('zoo') is None


FULL_LIMIT = 40000        # cases per run whose introspection records / `if` tests are compared; beyond that: statement traces only


def prepare(cases):
    """ask the driver for the interpreted translation on every vocabulary case (called from run_impl, i.e. before the driver runs;
    corpus cases included).  Every case gets its statement trace compared; the (larger) introspection output is requested for all
    cases of a quick run and for an evenly spread FULL_LIMIT of a thorough run."""
    T = tie()
    if T.skip:
        return
    want = [c for c in cases if wants(c) and not c['c'].get('ir')]
    stride = max(1, -(-len(want) // FULL_LIMIT))
    for k, c in enumerate(want):
        c['c'] = dict(c['c'], ir=True if k % stride == 0 else 'trace')


def same_order(t, o):
    """does the freshly built value iterate its sets in the order the term lists them (instances hash by address: the order of a
    set of instances differs from build to build; verdicts do not depend on it - C02 checks that - but the number of elements
    looked at before the first failure does)"""
    k = t[0]
    try:
        if k == 'coll' and isinstance(o, (set, frozenset)):
            return len(o) != len(t[2]) or ([K.reflect_val(x) for x in o] == t[2] and all(same_order(a, b) for a, b in zip(t[2], o)))
        if k in ('coll', 'tup'):
            return len(o) != len(t[2]) or all(same_order(a, b) for a, b in zip(t[2], o))
        if k == 'ntup':
            return all(same_order(a, b) for a, b in zip(t[3], o))
        if k == 'mapping':
            return len(o) != len(t[2]) or all(same_order(kt, ko) and same_order(vt, vo) for (kt, vt), (ko, vo) in zip(t[2], o.items()))
    except Exception:
        return False
    return True


def run_assert_traced(ao, vo, case=None, traced=True):
    """K.run_assert, observed: -> (outcome, trace or None)"""
    T = tie()
    if T.skip or not traced:
        return K.run_assert(ao, vo), None
    if case is not None and not case['x'].get('cycle') and not same_order(case['c']['val'], vo):
        return K.run_assert(ao, vo), None
    return T.trace_run(K.run_assert, ao, vo)


def fresh_typing():
    """forget typing's alias caches: `typing.List[Union[int, str]]` answers with a cached `typing.List[int | str]` built earlier in the
    process (the keys compare equal), so the objects `convert_to_typing_types` builds - and the branch taken on them - depend on what ran
    before; with empty caches the object graph is a function of the case"""
    for f in getattr(typing, '_cleanups', ()):
        f()


def run_impl_checker(cases):
    """K.run_impl_checker with the run observed (same outcome format + 'trace')"""
    prepare(cases)
    out = []
    for c in cases:
        fresh_typing()
        try:
            ao = K.build_ann(c['c']['ann'])
            vo = K.build_val_for_case(c)
        except Exception as e:      # a corpus case that cannot be concretised any more
            out.append({'out': 'unbuildable:' + type(e).__name__})
            continue
        o, tr = run_assert_traced(ao, vo, c)
        r = {'out': o}
        if tr is not None:
            r['trace'] = tr
        out.append(r)
    return out


def extra_cases(rng, tier):
    """deterministic family that drives every exit of `_check_type` / `_is_instance` / the checkers which the annotation vocabulary can
    reach and the type-directed generator meets rarely or never: string annotations that name no class of the context, NewType over
    tuple / object / a NamedTuple class against NamedTuple values, values with `_asdict` (also the field-less NamedTuple) against
    every kind of node (PEP 585 aliases of runtime classes with and without `__annotations__`, forward references, classes with
    other fields), every bare generic, Tuple[()]"""
    IDX, nid, lit, cls = K.IDX, K.nid, K.lit, K.cls_term
    nt0 = ["ntup", IDX[K.NT0], [], []]
    nt1 = ["ntup", IDX[K.NT1], [nid('a'), nid('b')], [lit(1), lit('a')]]
    nt1bad = ["ntup", IDX[K.NT1], [nid('a'), nid('b')], [lit('x'), lit('a')]]
    nt3 = ["ntup", IDX[K.NT3], [nid('x')], [lit(1)]]
    nt2 = ["ntup", IDX[K.NT2], [nid('a'), nid('b')], [lit(1), lit('a')]]
    ntsub = ["ntup", IDX[K.NTSub], [nid('a'), nid('b')], [lit(1), lit('a')]]
    ntsubbad = ["ntup", IDX[K.NTSub], [nid('a'), nid('b')], [lit(1), lit(2)]]
    vals = [lit(None), lit(1), lit('a'), ["coll", IDX[list], []], ["coll", IDX[list], [lit(1)]], ["tup", IDX[tuple], []], ["tup", IDX[tuple], [lit(1), lit('a')]],
            nt0, nt1, nt1bad, nt3, nt2, ntsub, ntsubbad, ["inst", IDX[K.PF]], ["inst", IDX[K.U]], ["inst", IDX[K.P]], ["inst", IDX[K.DC]], ["clsobj", IDX[int]], ["mapping", IDX[dict], []],
            ["mapping", IDX[collections.defaultdict], [[lit('k'), lit(1)]]], ["coll", IDX[collections.deque], [lit(1)]], ["iterator", IDX[K.ListIterator], [lit(1)]]]
    anns = []
    anns += [["str", nid(n)] for n in ('Nope', 'DC', 'NT1', 'NT0', 'U', 'int', 'object')]
    anns += [["newtype", IDX[c]] for c in (K.NT1, K.NT0, tuple, object, int)]
    anns += [cls(c) for c in (int, object, tuple, K.NT0, K.NT1, K.NT2, K.NT3, K.NTSub, K.PF, K.DC, K.U, K.TS)]
    anns += [["seq", "typing", "list", cls(K.NT1)], ["map", "pep585", "dict", cls(str), cls(K.NT1)], ["union", "optional", [cls(K.NTSub), ["cls", IDX[K.NoneType]]]],
             ["tuple", "typing", [cls(K.NT1), cls(K.PF)]]]
    for sp in ('typing', 'pep585'):
        anns += [["seq", sp, o, cls(int)] for o in K.SEQ] + [["map", sp, o, cls(str), cls(int)] for o in K.MAP]
        anns += [["tuple", sp, []], ["tuple", sp, [cls(int), cls(str)]], ["tuplevar", sp, cls(int)], ["typeof", sp, cls(int)], ["typeof", sp, ["any"]],
                 ["seq", sp, "list", ["fwd", nid('U')]], ["seq", sp, "list", ["fwd", nid('Nope')]], ["seq", sp, "sequence", cls(K.NT1)],
                 ["tuple", sp, [["fwd", nid('P')], cls(K.NT0)]], ["seq", sp, "list", ["bare", "list"]], ["map", sp, "dict", cls(str), ["bare", "tList"]]]
    anns += [["bare", b] for b in K.BARE]
    anns += [["union", u, [cls(K.NT1), ["cls", IDX[K.NoneType]]]] for u in ('union', 'optional', 'pipe')]
    anns += [["union", "union", [["fwd", nid('U')], cls(int)]], ["union", "union", [["seq", "typing", "list", cls(int)], ["bare", "dict"]]],
             ["lit", [K.lit_term(1), K.lit_term('a'), K.lit_term(None)]], ["any"], ["none"]]
    out = []
    for a in anns:
        try:
            at = K.canon_ann(a)[0]
        except Exception:
            continue
        for v in vals:
            try:
                vt = K.canon_val(v)[0]
            except Exception:
                continue
            out.append(K.mk_case(at, vt, kind='ir-family'))
    return out


def check(case, impl, model):
    """-> (ok, why, stats) for one checker case"""
    T = tie()
    stats = {'nodes': 0, 'tests': 0, 'traced': 0}
    if T.skip or 'irTrace' not in model or not wants(case) or str(impl.get('out', '')).startswith('unbuildable'):
        return True, '', stats
    why = []
    if model['irOut'] != model['out'] or model['irRaw'] != model['handRaw']:
        why.append(f"interpreted translation {model['irOut']}/{model['irRaw']} vs hand-written model {model['out']}/{model['handRaw']}")
    try:
        if 'intros' in model:
            fresh_typing()
            top = K.build_ann(case['c']['ann'])
            val = K.build_val_for_case(case)
    except Exception:
        return True, '', stats
    ctx = {**K.ZCTX, **K.CTX}
    for node in model.get('intros', ()):
        try:
            t = T.navigate(top, node['path'])
        except Exception as e:
            why.append(f"path {node['path']} does not exist on the real object ({type(e).__name__})")
            continue
        bad, n = T.compare_node(node, t, val, ctx)
        stats['nodes'] += 1
        stats['tests'] += n
        if bad:
            why.append(f"node {json.dumps(node['path'])} {t!r}: " + '; '.join(bad[:6]))
    tr = impl.get('trace')
    if tr is not None:
        stats['traced'] = 1
        if tr != model['irTrace']:
            why.append(f"statements left from: model {model['irTrace'][:12]} / observed {tr[:12]}" + (' …' if max(len(tr), len(model['irTrace'])) > 12 else ''))
    return not why, ' | '.join(why[:4]), stats


def apply(j, case, impl, model):
    """fold the tie into a judgement of the plugin (existing verdict logic untouched)"""
    ok, why, stats = check(case, impl, model)
    j['_tie'] = stats
    if not ok:
        j['corr'] = False
        j['why'] = ((j.get('why') or '') + ' || ir-tie: ' + why).strip(' |')
    return j


def coverage(results):
    """evidence: how much was compared, which statements the real code left from (id -> count), which never"""
    T = tie()
    if T.skip:
        return {'ir_tie': {'skipped': T.skip}}
    nodes = tests = traced = cases = 0
    hits = {}
    zoo_hits = {}
    for (c, i, m, j) in results:
        st = j.get('_tie')
        if st:
            cases += 1 if st['nodes'] else 0
            nodes += st['nodes']; tests += st['tests']; traced += st['traced']
        tr = i.get('trace') if isinstance(i, dict) else None
        if tr:
            tgt = zoo_hits if c.get('x', {}).get('zoo') is not None else hits
            for s in tr:
                tgt[s] = tgt.get(s, 0) + 1
    exits = {sid: v for sid, v in T.stmts.items() if v[0] in TRACED}
    label = lambda sid: f"{sid}:{T.stmts[sid][0]}:{T.stmts[sid][1]}@{T.stmts[sid][2]}" if sid in T.stmts else str(sid)
    never = [label(s) for s in sorted(exits) if s not in hits and T.stmts[s][1] in ('return', 'raise', 'opaque', 'assert')]
    never_zoo = [label(s) for s in sorted(exits) if s not in hits and s not in zoo_hits and T.stmts[s][1] in ('return', 'raise', 'opaque', 'assert')]
    return {'ir_tie': {
        'cases_with_introspection_compared': cases, 'annotation_nodes_compared': nodes, 'if_tests_compared': tests,
        'runs_traced_and_compared': traced,
        'statements_left_from_vocabulary': {label(k): v for k, v in sorted(hits.items())},
        'statements_left_from_zoo': {label(k): v for k, v in sorted(zoo_hits.items())},
        'exit_statements_never_observed_vocabulary': never,
        'exit_statements_never_observed_at_all': never_zoo}}
