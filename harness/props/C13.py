"""C13 — @validate binds by name: exhaustive call-style x mode x source matrix against the Lean model and the by-name spec."""
from props import _validate_common as V

RULE = ('exhaustive matrix for 1..3 (quick) / 1..4 (thorough) named parameters: all declaration orders of the Parameters x all splits of the '
        'call into positional prefix + keyword rest x all subsets and permutations of the keywords (n = 4: all splits x all permutations of the '
        'full keyword rest x all 81 source patterns, and additionally every 9th point of the matrix with omissions) x '
        'ARGS / KWARGS_WITH_NONE / KWARGS_WITHOUT_NONE x strict on/off (n = 4: alternating) x all source patterns {plain, external with a value, external without}^n '
        '(EnvironmentVariableParameter and a harness-defined ExternalParameter alternate); method, async, number of defaulted parameters, '
        'required, Parameter default, the position of a None / falsy value and the NAMES of the parameters (a, b, c, d / an ordinary parameter '
        'called args in first, middle or last position / kwargs / cls / names from a pool of ~50: single letters, substrings and superstrings of self, cls, args, kwargs, the own keywords and locals of the library) and a default value \'*args\' (the text *args inside str(signature)) cycle with a counter.  Plus seeded structured programs as in '
        'C12 without VAR_POSITIONAL parameter (ordinary parameters called args, kwargs, cls, and self in a non-first position; histories of '
        'calls on one decorated function object with re-entrant validators; keyword-only parameters, value types, chains, None and the falsy values 0, \'\', [], {}, (), False, 0.0, '
        'ignore_input, a keyword called self on plain functions and methods, methods called on the class with the receiver passed by keyword), the receiver enumeration of C12 (a keyword self on plain functions, an ordinary parameter called self in second position, methods with the receiver positional / by keyword) and Flask sources (FlaskJson/Form/Get/Header/PathParameter under app.test_request_context).  non-trivial = the call carries an argument or a Parameter is declared')
EXHAUSTIVE = {'quick': True, 'thorough': True}
ASSUMPTIONS = ['functions without VAR_POSITIONAL parameter (`*args` under any name: the property excludes them); Parameter names distinct (duplicates are checked for correspondence only)',
               'external sources exercised: EnvironmentVariableParameter, a harness-defined ExternalParameter, and the Flask parameters (JSON body, form, query string, headers) under app.test_request_context']
TRUSTED = ['Python call binding (positional / keyword / defaults) is modelled (`bindCall`) and exercised on every case, not verified']


def cases(rng, tier):
    out = []
    if tier == 'quick':
        out += V.byname_matrix(rng, 1) + V.byname_matrix(rng, 2) + V.byname_matrix(rng, 3)
        out += V.receiver_enum(rng)
        out += V.random_cases(rng, 22000, allow_varargs=False)
        out += V.scenario_cases(rng, 1200, allow_varargs=False)
        out += V.flask_cases(rng, 4000)
    else:
        out += V.byname_matrix(rng, 1) + V.byname_matrix(rng, 2) + V.byname_matrix(rng, 3)
        out += V.byname_matrix(rng, 4, omissions=False, full_flags=False)
        out += V.byname_matrix(rng, 4, omissions=True, full_flags=False, stride=9)
        out += V.receiver_enum(rng)
        out += V.random_cases(rng, 60000, allow_varargs=False)
        out += V.scenario_cases(rng, 8000, allow_varargs=False)
        out += V.flask_cases(rng, 30000)
    return out


def search(rng, tier, near):
    return V.random_cases(rng, 30000, allow_varargs=False, origin='search')


run_impl = V.run_impl
extra_coverage = V.extra_coverage


def judge(case, impl, model):
    if 'calls' in case['c']:
        return V.judge_scenario(case, impl, model, judge)        # every call of the history is judged like a single call
    corr, why = V.correspondence(case, impl, model)
    return {'corr': corr, 'why': why, 'pfail': V.pfail_byname(case, impl, model), 'finding': None,
            'nontrivial': V.nontrivial(case, impl), 'tag': V.tag_of(case, impl)}


twins = V.twins      # amplified run: the call preceded by the same call with number twins (0 / False / 0.0 ...)
